import PermutaModel.Lemmas.C12Quick
import PermutaModel.Lemmas.C12West
/-! C12: the quicksort operator sorts a permutation in one pass iff it avoids 321, 2413 and the
    mesh pattern (2143, {(2,2)}) (Claesson–Úlfarsson style argument), at the level of duplicate-free words. -/
open Model Spec List

namespace C12

/-! ### the quicksort operator on arbitrary words: recursion equations -/

theorem lastStrongFix_some {l : List Nat} {m : Nat} (h : lastStrongFix l = some m) :
    m < l.length ∧ isStrongFix l m = true := by
  rw [lastStrongFix_eq] at h
  obtain ⟨hP, _, hm, _⟩ := lastIdx_some h
  exact ⟨by omega, hP⟩

theorem lastStrongFix_none {l : List Nat} (h : lastStrongFix l = none) :
    ∀ i, i < l.length → isStrongFix l i = false := by
  rw [lastStrongFix_eq] at h
  intro i hi
  exact lastIdx_none h i (by omega) (by omega)

theorem quickPassFuel_fuel : ∀ (f1 f2 : Nat) (l : List Nat), l.length ≤ f1 → l.length ≤ f2 →
    quickPassFuel f1 l = quickPassFuel f2 l
  | 0, f2, l, h1, _ => by
    have : l = [] := List.eq_nil_of_length_eq_zero (by omega)
    subst this; rw [quickPassFuel_nil, quickPassFuel_nil]
  | f1 + 1, 0, l, _, h2 => by
    have : l = [] := List.eq_nil_of_length_eq_zero (by omega)
    subst this; rw [quickPassFuel_nil, quickPassFuel_nil]
  | f1 + 1, f2 + 1, [], _, _ => rfl
  | f1 + 1, f2 + 1, x :: t, h1, h2 => by
    simp only [quickPassFuel]
    cases hs : lastStrongFix (x :: t) with
    | none => rfl
    | some m =>
      have hm := (lastStrongFix_some hs).1
      simp only
      rw [quickPassFuel_fuel f1 f2 (take m (x :: t)) (by rw [length_take]; omega) (by rw [length_take]; omega),
        quickPassFuel_fuel f1 f2 (drop (m + 1) (x :: t)) (by rw [length_drop]; omega) (by rw [length_drop]; omega)]

theorem quickPass_nil : quickPass [] = [] := rfl

theorem quickPass_some {l : List Nat} {m : Nat} (h : lastStrongFix l = some m) :
    quickPass l = quickPass (l.take m) ++ [l.getD m 0] ++ quickPass (l.drop (m + 1)) := by
  have hm := (lastStrongFix_some h).1
  match l, h, hm with
  | x :: t, h, hm =>
    unfold quickPass
    rw [show (x :: t).length = t.length + 1 from rfl]
    simp only [quickPassFuel, h]
    rw [quickPassFuel_fuel t.length (take m (x :: t)).length _ (by rw [length_take]; simp only [length_cons] at hm ⊢; omega) (Nat.le_refl _),
      quickPassFuel_fuel t.length (drop (m + 1) (x :: t)).length _ (by rw [length_drop]; simp only [length_cons] at hm ⊢; omega) (Nat.le_refl _)]

theorem quickPass_none {f : Nat} {t : List Nat} (h : lastStrongFix (f :: t) = none) :
    quickPass (f :: t) = (f :: t).filter (· < f) ++ [f] ++ (f :: t).filter (f < ·) := by
  unfold quickPass
  rw [show (f :: t).length = t.length + 1 from rfl]
  simp only [quickPassFuel, h]

/-- a strong fixed point splits the word into smaller entries, the point, larger entries -/
theorem strongFix_split {l : List Nat} {m : Nat} (hm : m < l.length) (h : isStrongFix l m = true) :
    l = l.take m ++ l.getD m 0 :: l.drop (m + 1) ∧ (∀ x ∈ l.take m, x < l.getD m 0) ∧
      (∀ x ∈ l.drop (m + 1), l.getD m 0 < x) :=
  ⟨split_at hm, (isStrongFix_iff.mp h).1, (isStrongFix_iff.mp h).2⟩

/-- no strong fixed point, in terms of decompositions -/
theorem no_strongFix {l : List Nat} (h : lastStrongFix l = none) (P T : List Nat) (e : Nat) (hl : l = P ++ e :: T) :
    ¬ ((∀ x ∈ P, x < e) ∧ (∀ x ∈ T, e < x)) := by
  intro hc
  have hi : P.length < l.length := by rw [hl]; simp
  have := lastStrongFix_none h P.length hi
  have h2 : isStrongFix l P.length = true := by
    rw [isStrongFix_iff]
    subst hl
    simpa [List.getD_eq_getElem?_getD] using hc
  rw [h2] at this
  exact absurd this (by simp)

theorem quickPass_perm (l : List Nat) (hnd : l.Nodup) : quickPass l ~ l := by
  induction hn : l.length using Nat.strongRecOn generalizing l with
  | _ n ih =>
    subst hn
    match l, ih, hnd with
    | [], _, _ => rw [quickPass_nil]
    | f :: t, ih, hnd =>
      cases hs : lastStrongFix (f :: t) with
      | some m =>
        obtain ⟨hm, hsf⟩ := lastStrongFix_some hs
        rw [quickPass_some hs]
        have hd := split_at hm
        have p1 := ih _ (by rw [length_take]; omega) (take m (f :: t)) (hnd.sublist (take_sublist _ _)) rfl
        have p2 := ih _ (by rw [length_drop]; omega) (drop (m + 1) (f :: t)) (hnd.sublist (drop_sublist _ _)) rfl
        conv => rhs; rw [hd]
        rw [append_assoc]
        exact p1.append (p2.cons _)
      | none =>
        rw [quickPass_none hs]
        have hft : f ∉ t := (nodup_cons.mp hnd).1
        have e1 : (f :: t).filter (· < f) = t.filter (· < f) := by simp
        have e2 : (f :: t).filter (f < ·) = t.filter (f < ·) := by simp
        rw [e1, e2, append_assoc]
        refine (perm_middle (a := f)).trans (Perm.cons _ ?_)
        have e3 : t.filter (f < ·) = t.filter (fun x => !decide (x < f)) := by
          apply filter_congr
          intro x hx
          have : x ≠ f := fun e => hft (e ▸ hx)
          by_cases hlt : x < f
          · simp [hlt]; omega
          · simp [hlt]; omega
        rw [e3]
        exact filter_append_perm _ t

/-! ### the three forbidden configurations, in the vocabulary of sublists -/

def Has321 (l : List Nat) : Prop := Has3 (fun a b c => c < b ∧ b < a) l

/-- an occurrence `b d a c` of 2413 (`a < b < c < d`) -/
def Has2413 (l : List Nat) : Prop := ∃ b d a c, [b, d, a, c] <+ l ∧ a < b ∧ b < c ∧ c < d

/-- an occurrence `b a d c` of 2143 (`a < b < c < d`) that is not part of a 21354: no entry placed
    between `a` and `d` has a value between `b` and `c` -/
def HasBar21354 (l : List Nat) : Prop :=
  ∃ b a d c, [b, a, d, c] <+ l ∧ a < b ∧ b < c ∧ c < d ∧ ∀ e, [a, e, d] <+ l → ¬ (b < e ∧ e < c)

def BadQ (l : List Nat) : Prop := Has321 l ∨ Has2413 l ∨ HasBar21354 l

theorem sub4_append {a b c d : Nat} {X Y : List Nat} (h : [a, b, c, d] <+ X ++ Y) :
    [a, b, c, d] <+ X ∨ ([a, b, c] <+ X ∧ d ∈ Y) ∨ ([a, b] <+ X ∧ [c, d] <+ Y) ∨
      (a ∈ X ∧ [b, c, d] <+ Y) ∨ [a, b, c, d] <+ Y := by
  obtain ⟨l1, l2, e, h1, h2⟩ := sublist_append_iff.mp h
  match l1, e, h1 with
  | [], e, _ => simp at e; subst e; exact Or.inr (Or.inr (Or.inr (Or.inr h2)))
  | [x], e, h1 =>
    simp at e; obtain ⟨rfl, rfl⟩ := e
    exact Or.inr (Or.inr (Or.inr (Or.inl ⟨singleton_sublist.mp h1, h2⟩)))
  | [x, y], e, h1 =>
    simp at e; obtain ⟨rfl, rfl, rfl⟩ := e
    exact Or.inr (Or.inr (Or.inl ⟨h1, h2⟩))
  | [x, y, z], e, h1 =>
    simp at e; obtain ⟨rfl, rfl, rfl, rfl⟩ := e
    exact Or.inr (Or.inl ⟨h1, singleton_sublist.mp h2⟩)
  | [x, y, z, w], e, h1 =>
    simp at e; obtain ⟨rfl, rfl, rfl, rfl, rfl⟩ := e
    exact Or.inl h1
  | x :: y :: z :: w :: v :: t, e, _ =>
    have := congrArg List.length e
    simp at this

theorem sub3_mem {a b c : Nat} {R : List Nat} (h : [a, b, c] <+ R) : a ∈ R ∧ b ∈ R ∧ c ∈ R :=
  ⟨h.subset (by simp), h.subset (by simp), h.subset (by simp)⟩

theorem sub4_mem {a b c d : Nat} {R : List Nat} (h : [a, b, c, d] <+ R) : a ∈ R ∧ b ∈ R ∧ c ∈ R ∧ d ∈ R :=
  ⟨h.subset (by simp), h.subset (by simp), h.subset (by simp), h.subset (by simp)⟩

/-- a sublist of `x :: R` whose head is not `x` is a sublist of `R` -/
theorem sub_cons_of_ne {p x : Nat} {s R : List Nat} (h : p :: s <+ x :: R) (hne : p ≠ x) : p :: s <+ R := by
  rcases sublist_cons_iff.mp h with h | ⟨r, e, _⟩
  · exact h
  · simp at e; exact absurd e.1 hne

section split
variable {L R : List Nat} {x : Nat} (hL : ∀ y ∈ L, y < x) (hR : ∀ y ∈ R, x < y)
include hL hR

theorem has321_split : Has321 (L ++ x :: R) → Has321 L ∨ Has321 R := by
  rintro ⟨a, b, c, hs, hcb, hba⟩
  have ge : ∀ y ∈ x :: R, x ≤ y := by
    intro y hy; rcases mem_cons.mp hy with rfl | hy
    · exact Nat.le_refl _
    · exact Nat.le_of_lt (hR y hy)
  rcases sub3_append hs with h | ⟨h, hc⟩ | ⟨ha, h⟩ | h
  · exact Or.inl ⟨a, b, c, h, hcb, hba⟩
  · have := hL a (sub2_mem h).1; have := ge c hc; omega
  · have := hL a ha; have := ge c (sub2_mem h).2; omega
  · have hne : a ≠ x := by
      intro e; have := ge b (sub3_mem h).2.1; omega
    exact Or.inr ⟨a, b, c, sub_cons_of_ne h hne, hcb, hba⟩

theorem has2413_split : Has2413 (L ++ x :: R) → Has2413 L ∨ Has2413 R := by
  rintro ⟨b, d, a, c, hs, hab, hbc, hcd⟩
  have ge : ∀ y ∈ x :: R, x ≤ y := by
    intro y hy; rcases mem_cons.mp hy with rfl | hy
    · exact Nat.le_refl _
    · exact Nat.le_of_lt (hR y hy)
  rcases sub4_append hs with h | ⟨h, hc⟩ | ⟨h, h'⟩ | ⟨hb, h⟩ | h
  · exact Or.inl ⟨b, d, a, c, h, hab, hbc, hcd⟩
  · have := hL d (sub3_mem h).2.1; have := ge c hc; omega
  · have := hL b (sub2_mem h).1; have := ge a (sub2_mem h').1; omega
  · have := hL b hb; have := ge a (sub3_mem h).2.1; omega
  · have hne : b ≠ x := by
      intro e; have := ge a (sub4_mem h).2.2.1; omega
    exact Or.inr ⟨b, d, a, c, sub_cons_of_ne h hne, hab, hbc, hcd⟩

theorem hasBar_split : HasBar21354 (L ++ x :: R) → HasBar21354 L ∨ HasBar21354 R := by
  rintro ⟨b, a, d, c, hs, hab, hbc, hcd, hfree⟩
  have ge : ∀ y ∈ x :: R, x ≤ y := by
    intro y hy; rcases mem_cons.mp hy with rfl | hy
    · exact Nat.le_refl _
    · exact Nat.le_of_lt (hR y hy)
  rcases sub4_append hs with h | ⟨h, hc⟩ | ⟨h, h'⟩ | ⟨hb, h⟩ | h
  · exact Or.inl ⟨b, a, d, c, h, hab, hbc, hcd, fun e he => hfree e (he.trans (sublist_append_left _ _))⟩
  · have := hL d (sub3_mem h).2.2; have := ge c hc; omega
  · exfalso
    have hne : d ≠ x := by
      intro e; have := ge c (sub2_mem h').2; omega
    have hdc := sub_cons_of_ne h' hne
    apply hfree x
    · exact (singleton_sublist.mpr (sub2_mem h).2).append ((singleton_sublist.mpr (sub2_mem hdc).1).cons_cons x)
    · exact ⟨hL b (sub2_mem h).1, hR c (sub2_mem hdc).2⟩
  · have := hL b hb; have := ge a (sub3_mem h).1; omega
  · have hne : b ≠ x := by
      intro e; have := ge a (sub4_mem h).2.1; omega
    refine Or.inr ⟨b, a, d, c, sub_cons_of_ne h hne, hab, hbc, hcd, fun e he => hfree e ?_⟩
    exact he.trans ((sublist_cons_self _ _).trans (sublist_append_right _ _))

end split

theorem hasBar_mono_left {L R : List Nat} {x : Nat} (hnd : (L ++ x :: R).Nodup) :
    HasBar21354 L → HasBar21354 (L ++ x :: R) := by
  rintro ⟨b, a, d, c, hs, hab, hbc, hcd, hfree⟩
  refine ⟨b, a, d, c, hs.trans (sublist_append_left _ _), hab, hbc, hcd, fun e he => hfree e ?_⟩
  have hdL : d ∈ L := (sub4_mem hs).2.2.1
  have hdis := (nodup_append.mp hnd).2.2
  rcases sub3_append he with h | ⟨_, hc⟩ | ⟨_, h⟩ | h
  · exact h
  · exact absurd rfl (hdis d hdL d hc)
  · exact absurd rfl (hdis d hdL d (sub2_mem h).2)
  · exact absurd rfl (hdis d hdL d (sub3_mem h).2.2)

theorem hasBar_mono_right {L R : List Nat} {x : Nat} (hnd : (L ++ x :: R).Nodup) :
    HasBar21354 R → HasBar21354 (L ++ x :: R) := by
  rintro ⟨b, a, d, c, hs, hab, hbc, hcd, hfree⟩
  refine ⟨b, a, d, c, hs.trans ((sublist_cons_self _ _).trans (sublist_append_right _ _)), hab, hbc, hcd,
    fun e he => hfree e ?_⟩
  have haR : a ∈ R := (sub4_mem hs).2.1
  have hdis := (nodup_append.mp hnd).2.2
  have hxR : x ∉ R := (nodup_cons.mp (nodup_append.mp hnd).2.1).1
  rcases sub3_append he with h | ⟨h, _⟩ | ⟨ha, _⟩ | h
  · exact absurd rfl (hdis a (sub3_mem h).1 a (mem_cons_of_mem _ haR))
  · exact absurd rfl (hdis a (sub2_mem h).1 a (mem_cons_of_mem _ haR))
  · exact absurd rfl (hdis a ha a (mem_cons_of_mem _ haR))
  · exact sub_cons_of_ne h (fun e => hxR (e ▸ haR))

/-- across a strong fixed point the forbidden configurations live on one side -/
theorem badQ_split {L R : List Nat} {x : Nat} (hnd : (L ++ x :: R).Nodup)
    (hL : ∀ y ∈ L, y < x) (hR : ∀ y ∈ R, x < y) :
    BadQ (L ++ x :: R) ↔ BadQ L ∨ BadQ R := by
  have sL : L <+ L ++ x :: R := sublist_append_left _ _
  have sR : R <+ L ++ x :: R := (sublist_cons_self _ _).trans (sublist_append_right _ _)
  constructor
  · rintro (h | h | h)
    · rcases has321_split hL hR h with h | h
      · exact Or.inl (Or.inl h)
      · exact Or.inr (Or.inl h)
    · rcases has2413_split hL hR h with h | h
      · exact Or.inl (Or.inr (Or.inl h))
      · exact Or.inr (Or.inr (Or.inl h))
    · rcases hasBar_split hL hR h with h | h
      · exact Or.inl (Or.inr (Or.inr h))
      · exact Or.inr (Or.inr (Or.inr h))
  · rintro ((h | h | h) | (h | h | h))
    · exact Or.inl (h.mono sL)
    · obtain ⟨b, d, a, c, hs, hr⟩ := h
      exact Or.inr (Or.inl ⟨b, d, a, c, hs.trans sL, hr⟩)
    · exact Or.inr (Or.inr (hasBar_mono_left hnd h))
    · exact Or.inl (h.mono sR)
    · obtain ⟨b, d, a, c, hs, hr⟩ := h
      exact Or.inr (Or.inl ⟨b, d, a, c, hs.trans sR, hr⟩)
    · exact Or.inr (Or.inr (hasBar_mono_right hnd h))

theorem exists_last_sat (p : Nat → Prop) [DecidablePred p] : ∀ (l : List Nat), (∃ x ∈ l, p x) →
    ∃ P a T, l = P ++ a :: T ∧ p a ∧ ∀ y ∈ T, ¬ p y
  | [], h => by obtain ⟨x, hx, _⟩ := h; simp at hx
  | u :: t, h => by
    by_cases ht : ∃ x ∈ t, p x
    · obtain ⟨P, a, T, e, ha, hT⟩ := exists_last_sat p t ht
      exact ⟨u :: P, a, T, by rw [e]; rfl, ha, hT⟩
    · obtain ⟨x, hx, hpx⟩ := h
      rcases mem_cons.mp hx with e | hx
      · subst e; exact ⟨[], x, t, rfl, hpx, fun y hy hpy => ht ⟨y, hy, hpy⟩⟩
      · exact absurd ⟨x, hx, hpx⟩ ht

theorem mem_of_sub2_after {P T : List Nat} {a x : Nat} (hnd : (P ++ a :: T).Nodup)
    (h : [a, x] <+ P ++ a :: T) : x ∈ T := by
  have hdis := (nodup_append.mp hnd).2.2
  rcases sub2_append h with h | ⟨ha, _⟩ | h
  · exact absurd rfl (hdis a (sub2_mem h).1 a (mem_cons_self))
  · exact absurd rfl (hdis a ha a (mem_cons_self))
  · exact sub2_cons h

theorem sub2_of_split_left {P T : List Nat} {e x : Nat} (hx : x ∈ P) : [x, e] <+ P ++ e :: T :=
  (singleton_sublist.mpr hx).append ((nil_sublist T).cons_cons e)

theorem sub2_of_split_right {P T : List Nat} {e x : Nat} (hx : x ∈ T) : [e, x] <+ P ++ e :: T :=
  ((singleton_sublist.mpr hx).cons_cons e).trans (sublist_append_right _ _)

/-- the heart of the quicksort characterisation: in a word without strong fixed point that avoids the
    three configurations, the entries above the first entry `f` are increasing -/
theorem large_no_inv {f : Nat} {t : List Nat} (hnd : (f :: t).Nodup) (hs : lastStrongFix (f :: t) = none)
    (hbad : ¬ BadQ (f :: t)) : ∀ c d, [d, c] <+ f :: t → f < c → c < d → False := by
  have hft : f ∉ t := (nodup_cons.mp hnd).1
  -- the last entry below `f`
  have hex : ∃ x ∈ f :: t, x < f := by
    have := no_strongFix hs [] t f rfl
    simp only [not_mem_nil, false_imp_iff, implies_true, true_and, not_forall] at this
    obtain ⟨x, hx, hfx⟩ := this
    have : x ≠ f := fun e => hft (e ▸ hx)
    exact ⟨x, mem_cons_of_mem _ hx, by omega⟩
  obtain ⟨P, a, T, hl, haf, hT⟩ := exists_last_sat (· < f) (f :: t) hex
  have hal : a ∈ f :: t := by rw [hl]; simp
  intro c
  induction c using Nat.strongRecOn with
  | _ c ih =>
    intro d hdc hfc hcd
    have hdl : d ∈ f :: t := (sub2_mem hdc).1
    have hcl : c ∈ f :: t := (sub2_mem hdc).2
    have h_ad : [a, d] <+ f :: t := by
      rcases sub2_total hal hdl (by omega : a ≠ d) with h | h
      · exact h
      · exfalso
        rcases sub2_total hal hcl (by omega : a ≠ c) with h' | h'
        · have h3 : [d, a, c] <+ t := sub_cons_of_ne (sub_glue hnd h h') (by omega)
          exact hbad (Or.inr (Or.inl ⟨f, d, a, c, h3.cons_cons f, haf, hfc, hcd⟩))
        · exact hbad (Or.inl ⟨d, c, a, sub_glue hnd hdc h', by omega, hcd⟩)
    have h3 : [a, d, c] <+ t := sub_cons_of_ne (sub_glue hnd h_ad hdc) (by omega)
    apply hbad
    refine Or.inr (Or.inr ⟨f, a, d, c, h3.cons_cons f, haf, hfc, hcd, ?_⟩)
    rintro e he ⟨hfe, hec⟩
    have hel : e ∈ f :: t := (sub3_mem he).2.1
    obtain ⟨P', T', hl'⟩ := append_of_mem hel
    apply no_strongFix hs P' T' e hl'
    have hnd' : (P' ++ e :: T').Nodup := hl' ▸ hnd
    constructor
    · intro x hx
      have hxe : [x, e] <+ f :: t := by rw [hl']; exact sub2_of_split_left hx
      have := sub2_ne hnd hxe
      by_contra hlt
      exact ih e hec x hxe hfe (by omega)
    · intro x hx
      have hex' : [e, x] <+ f :: t := by rw [hl']; exact sub2_of_split_right hx
      have hne := sub2_ne hnd hex'
      by_contra hlt
      have hxt : x ∈ t := sub2_cons hex'
      have hxf : x ≠ f := fun e => hft (e ▸ hxt)
      by_cases hfx : f < x
      · exact ih x (by omega) e hex' hfx (by omega)
      · have h_ae : [a, e] <+ f :: t := Sublist.trans ((nil_sublist [d]).cons_cons e |>.cons_cons a) he
        have h_aex := sub_glue hnd h_ae hex'
        have h_ax : [a, x] <+ f :: t := Sublist.trans ((Sublist.refl [x]).cons e |>.cons_cons a) h_aex
        rw [hl] at h_ax hnd
        exact hT x (mem_of_sub2_after hnd h_ax) (by omega)

theorem none_sorted_iff {f : Nat} {t : List Nat} (hnd : (f :: t).Nodup) (hs : lastStrongFix (f :: t) = none) :
    ((f :: t).filter (· < f) ++ [f] ++ (f :: t).filter (f < ·)).Pairwise (· < ·) ↔ ¬ BadQ (f :: t) := by
  have hft : f ∉ t := (nodup_cons.mp hnd).1
  have hred : ((f :: t).filter (· < f) ++ [f] ++ (f :: t).filter (f < ·)).Pairwise (· < ·) ↔
      ((f :: t).filter (· < f)).Pairwise (· < ·) ∧ ((f :: t).filter (f < ·)).Pairwise (· < ·) := by
    rw [pairwise_append, pairwise_append]
    constructor
    · rintro ⟨⟨h1, _, _⟩, h2, _⟩; exact ⟨h1, h2⟩
    · rintro ⟨h1, h2⟩
      refine ⟨⟨h1, pairwise_singleton _ _, ?_⟩, h2, ?_⟩
      · intro a ha b hb
        simp only [mem_singleton] at hb; subst hb
        exact of_decide_eq_true (mem_filter.mp ha).2
      · intro a ha b hb
        have hb' : f < b := of_decide_eq_true (mem_filter.mp hb).2
        rcases mem_append.mp ha with ha | ha
        · have : a < f := of_decide_eq_true (mem_filter.mp ha).2
          omega
        · simp only [mem_singleton] at ha; subst ha; exact hb'
  rw [hred]
  constructor
  · rintro ⟨hsm, hlg⟩
    have A : ∀ p q, [p, q] <+ f :: t → q < p → ¬ p < f := by
      intro p q hpq hlt hpf
      have h := hpq.filter (fun x => decide (x < f))
      have e : [p, q].filter (fun x => decide (x < f)) = [p, q] := by
        simp [List.filter, hpf, (by omega : q < f)]
      rw [e] at h
      have := (pairwise_iff_forall_sublist.mp hsm) h
      omega
    have B : ∀ p q, [p, q] <+ f :: t → q < p → ¬ f < q := by
      intro p q hpq hlt hfq
      have h := hpq.filter (fun x => decide (f < x))
      have e : [p, q].filter (fun x => decide (f < x)) = [p, q] := by
        simp [List.filter, hfq, (by omega : f < p)]
      rw [e] at h
      have := (pairwise_iff_forall_sublist.mp hlg) h
      omega
    rintro (⟨a, b, c, h, hcb, hba⟩ | ⟨b, d, a, c, h, hab, hbc, hcd⟩ | ⟨b, a, d, c, h, hab, hbc, hcd, _⟩)
    · have h_ab : [a, b] <+ f :: t := Sublist.trans ((nil_sublist [c]).cons_cons b |>.cons_cons a) h
      have h_bc : [b, c] <+ f :: t := Sublist.trans ((Sublist.refl [b, c]).cons a) h
      have h1 := B a b h_ab hba
      have h2 := A b c h_bc hcb
      have : b ∈ t := sub2_cons h_ab
      have : b ≠ f := fun e => hft (e ▸ this)
      omega
    · have h_ba : [b, a] <+ f :: t := Sublist.trans ((Sublist.refl [a]).cons d |>.cons_cons b |>.trans
        ((nil_sublist [c]).cons_cons a |>.cons_cons d |>.cons_cons b)) h
      have h_dc : [d, c] <+ f :: t := Sublist.trans ((Sublist.refl [c]).cons a |>.cons_cons d |>.cons b) h
      have h1 := A b a h_ba hab
      have h2 := B d c h_dc hcd
      omega
    · have h_ba : [b, a] <+ f :: t := Sublist.trans ((nil_sublist [d, c]).cons_cons a |>.cons_cons b) h
      have h_dc : [d, c] <+ f :: t := Sublist.trans ((Sublist.refl [d, c]).cons a |>.cons b) h
      have h1 := A b a h_ba hab
      have h2 := B d c h_dc hcd
      omega
  · intro hbad
    have sm : (f :: t).filter (· < f) <+ f :: t := filter_sublist
    have lg : (f :: t).filter (f < ·) <+ f :: t := filter_sublist
    constructor
    · rw [pairwise_iff_forall_sublist]
      intro p q hpq
      have hpf : p < f := of_decide_eq_true (mem_filter.mp (sub2_mem hpq).1).2
      have hl := hpq.trans sm
      have hne := sub2_ne hnd hl
      by_contra hlt
      have h3 : [p, q] <+ t := sub_cons_of_ne hl (by omega)
      exact hbad (Or.inl ⟨f, p, q, h3.cons_cons f, by omega, hpf⟩)
    · rw [pairwise_iff_forall_sublist]
      intro d c hdc
      have hfc : f < c := of_decide_eq_true (mem_filter.mp (sub2_mem hdc).2).2
      have hl := hdc.trans lg
      have hne := sub2_ne hnd hl
      by_contra hlt
      exact large_no_inv hnd hs hbad c d hl hfc (by omega)

theorem not_badQ_nil : ¬ BadQ [] := by
  rintro (⟨a, b, c, h, _⟩ | ⟨b, d, a, c, h, _⟩ | ⟨b, a, d, c, h, _⟩) <;> simp at h

/-- **list level**: one pass of the quicksort operator sorts a duplicate-free word iff the word avoids
    321, 2413 and 2143-not-inside-21354 -/
theorem quickPass_sorted_iff (l : List Nat) (hnd : l.Nodup) :
    (quickPass l).Pairwise (· < ·) ↔ ¬ BadQ l := by
  induction hn : l.length using Nat.strongRecOn generalizing l with
  | _ n ih =>
    subst hn
    match l, ih, hnd with
    | [], _, _ => simp [quickPass_nil, not_badQ_nil]
    | f :: t, ih, hnd =>
      cases hs : lastStrongFix (f :: t) with
      | none => rw [quickPass_none hs]; exact none_sorted_iff hnd hs
      | some m =>
        obtain ⟨hm, hsf⟩ := lastStrongFix_some hs
        obtain ⟨hd, hL, hR⟩ := strongFix_split hm hsf
        rw [quickPass_some hs]
        generalize hLdef : take m (f :: t) = L at *
        generalize hRdef : drop (m + 1) (f :: t) = R at *
        generalize (f :: t).getD m 0 = x at *
        have hlenL : L.length < (f :: t).length := by rw [← hLdef, length_take]; omega
        have hlenR : R.length < (f :: t).length := by rw [← hRdef, length_drop]; omega
        rw [hd] at hnd ⊢
        have hndL : L.Nodup := (nodup_append.mp hnd).1
        have hndR : R.Nodup := (nodup_cons.mp (nodup_append.mp hnd).2.1).2
        have pL := quickPass_perm L hndL
        have pR := quickPass_perm R hndR
        rw [badQ_split hnd hL hR, not_or, ← ih _ hlenL L hndL rfl, ← ih _ hlenR R hndR rfl,
          pairwise_append, pairwise_append]
        constructor
        · rintro ⟨⟨h1, _, _⟩, h2, _⟩; exact ⟨h1, h2⟩
        · rintro ⟨h1, h2⟩
          refine ⟨⟨h1, pairwise_singleton _ _, ?_⟩, h2, ?_⟩
          · intro a ha b hb
            simp only [mem_singleton] at hb; subst hb
            exact hL a (pL.mem_iff.mp ha)
          · intro a ha b hb
            have hb' := hR b (pR.mem_iff.mp hb)
            rcases mem_append.mp ha with ha | ha
            · have := hL a (pL.mem_iff.mp ha); omega
            · simp only [mem_singleton] at ha; subst ha; exact hb'

/-! ### the property's vocabulary -/

theorem rel4_2413 (b d a c : Nat) : Rel4 [1, 3, 0, 2] b d a c ↔ a < b ∧ b < c ∧ c < d := by
  constructor
  · intro h
    have h1 := h 2 0 (by omega) (by omega)
    have h2 := h 0 3 (by omega) (by omega)
    have h3 := h 3 1 (by omega) (by omega)
    simp at h1 h2 h3; exact ⟨h1, h2, h3⟩
  · rintro ⟨h1, h2, h3⟩ x y hx hy
    have hx' : x = 0 ∨ x = 1 ∨ x = 2 ∨ x = 3 := by omega
    have hy' : y = 0 ∨ y = 1 ∨ y = 2 ∨ y = 3 := by omega
    rcases hx' with rfl | rfl | rfl | rfl <;> rcases hy' with rfl | rfl | rfl | rfl <;> simp <;> omega

theorem rel4_2143 (b a d c : Nat) : Rel4 [1, 0, 3, 2] b a d c ↔ a < b ∧ b < c ∧ c < d := by
  constructor
  · intro h
    have h1 := h 1 0 (by omega) (by omega)
    have h2 := h 0 3 (by omega) (by omega)
    have h3 := h 3 2 (by omega) (by omega)
    simp at h1 h2 h3; exact ⟨h1, h2, h3⟩
  · rintro ⟨h1, h2, h3⟩ x y hx hy
    have hx' : x = 0 ∨ x = 1 ∨ x = 2 ∨ x = 3 := by omega
    have hy' : y = 0 ∨ y = 1 ∨ y = 2 ∨ y = 3 := by omega
    rcases hx' with rfl | rfl | rfl | rfl <;> rcases hy' with rfl | rfl | rfl | rfl <;> simp <;> omega

theorem contains_321_iff' (σ : NSeq) : Contains σ [2, 1, 0] ↔ Has321 σ := contains_321_iff σ

theorem contains_2413_iff (σ : NSeq) : Contains σ [1, 3, 0, 2] ↔ Has2413 σ := by
  rw [contains4_iff _ σ rfl]
  unfold Has2413
  constructor
  · rintro ⟨b, d, a, c, hs, hr⟩; exact ⟨b, d, a, c, hs, (rel4_2413 b d a c).mp hr⟩
  · rintro ⟨b, d, a, c, hs, hr⟩; exact ⟨b, d, a, c, hs, (rel4_2413 b d a c).mpr hr⟩

theorem cnt4_two {p1 p2 p3 p4 : Bool} (h : p1.toNat + p2.toNat + p3.toNat + p4.toNat = 2)
    (h14 : p1 = true → p2 = true) (h41 : p4 = true → p1 = true)
    (h34 : p3 = true → p4 = true) : p1 = true ∧ p4 = false := by
  cases p1 <;> cases p2 <;> cases p3 <;> cases p4 <;> simp_all

/-- the mesh pattern `(2143, {(2,2)})` (the barred pattern 21\bar{3}54) in the vocabulary of sublists -/
theorem meshContains_2143_iff (σ : NSeq) (hnd : σ.Nodup) :
    MeshContains σ ⟨[1, 0, 3, 2], [(2, 2)]⟩ ↔ HasBar21354 σ := by
  constructor
  · rintro ⟨c, hocc, hfree⟩
    obtain ⟨i, j, k, m, rfl, hij, hjk, hkm, hm, hrel⟩ := (isOcc4_iff _ σ rfl c).mp hocc
    obtain ⟨r1, r2, r3⟩ := (rel4_2143 _ _ _ _).mp hrel
    refine ⟨_, _, _, _, pick4_sublist hij hjk hkm hm, r1, r2, r3, ?_⟩
    rintro w hw ⟨hbw, hwc⟩
    obtain ⟨j', t, k', h1, h2, h3, e1, e2, e3⟩ := sub3_pick hw
    have ej : j = j' := getD_inj_of_nodup hnd (by omega) (by omega) e1
    have ek : k = k' := getD_inj_of_nodup hnd (by omega) (by omega) e3
    subst ej ek e2
    apply hfree t (by omega) (by simp; omega)
    simp only [Spec.cellOf, filter4_len, mem_singleton, Prod.mk.injEq]
    have d1 : decide (i < t) = true := decide_eq_true (by omega)
    have d2 : decide (j < t) = true := decide_eq_true (by omega)
    have d3 : decide (k < t) = false := decide_eq_false (by omega)
    have d4 : decide (m < t) = false := decide_eq_false (by omega)
    have v1 : decide (σ.getD i 0 < σ.getD t 0) = true := decide_eq_true (by omega)
    have v2 : decide (σ.getD j 0 < σ.getD t 0) = true := decide_eq_true (by omega)
    have v3 : decide (σ.getD k 0 < σ.getD t 0) = false := decide_eq_false (by omega)
    have v4 : decide (σ.getD m 0 < σ.getD t 0) = false := decide_eq_false (by omega)
    refine ⟨by rw [d1, d2, d3, d4]; rfl, by rw [v1, v2, v3, v4]; rfl⟩
  · rintro ⟨b, a, d, c, hs, hab, hbc, hcd, hfree⟩
    obtain ⟨i, j, k, m, hij, hjk, hkm, hm, rfl, rfl, rfl, rfl⟩ := sub4_pick hs
    refine ⟨[i, j, k, m], (isOcc4_iff _ σ rfl _).mpr ⟨i, j, k, m, rfl, hij, hjk, hkm, hm,
      (rel4_2143 _ _ _ _).mpr ⟨hab, hbc, hcd⟩⟩, ?_⟩
    intro t ht htc hcell
    simp only [Spec.cellOf, filter4_len, mem_singleton, Prod.mk.injEq] at hcell
    simp only [mem_cons, not_mem_nil, or_false, not_or] at htc
    obtain ⟨hc1, hc2⟩ := hcell
    have t1 : j < t ∧ t < k := by
      by_cases d1 : i < t <;> by_cases d2 : j < t <;> by_cases d3 : k < t <;> by_cases d4 : m < t <;>
        simp [d1, d2, d3, d4] at hc1 <;> omega
    have hv := cnt4_two hc2
      (fun h => decide_eq_true (by have := of_decide_eq_true h; omega))
      (fun h => decide_eq_true (by have := of_decide_eq_true h; omega))
      (fun h => decide_eq_true (by have := of_decide_eq_true h; omega))
    have t2 : σ.getD i 0 < σ.getD t 0 := of_decide_eq_true hv.1
    have t3 : ¬ σ.getD m 0 < σ.getD t 0 := of_decide_eq_false hv.2
    have t4 : σ.getD t 0 ≠ σ.getD m 0 := fun e => htc.2.2.2 (getD_inj_of_nodup hnd ht hm e)
    exact hfree _ (pick3_sublist t1.1 t1.2 (by omega)) ⟨t2, by omega⟩

end C12
