import PermutaModel.Lemmas.C14C15Decode
/-! C14 ↔ C15: C15's copy of `pinwords_of_length` enumerates the same words. -/
namespace C14C15
open Model.C14 Model.C14.Letter Spec.C14 Proto C14L

theorem ofChar_eq_U (c : Char) : ofChar c = U ↔ c = 'U' := by
  rcases ofChar_cases c with ⟨rfl, e⟩ | ⟨rfl, e⟩ | ⟨rfl, e⟩ | ⟨rfl, e⟩ | ⟨rfl, e⟩ | ⟨rfl, e⟩ | ⟨rfl, e⟩
      | ⟨rfl, e⟩ | ⟨h, e⟩ <;> rw [e] <;> simp_all
theorem ofChar_eq_D (c : Char) : ofChar c = D ↔ c = 'D' := by
  rcases ofChar_cases c with ⟨rfl, e⟩ | ⟨rfl, e⟩ | ⟨rfl, e⟩ | ⟨rfl, e⟩ | ⟨rfl, e⟩ | ⟨rfl, e⟩ | ⟨rfl, e⟩
      | ⟨rfl, e⟩ | ⟨h, e⟩ <;> rw [e] <;> simp_all
theorem ofChar_eq_L (c : Char) : ofChar c = L ↔ c = 'L' := by
  rcases ofChar_cases c with ⟨rfl, e⟩ | ⟨rfl, e⟩ | ⟨rfl, e⟩ | ⟨rfl, e⟩ | ⟨rfl, e⟩ | ⟨rfl, e⟩ | ⟨rfl, e⟩
      | ⟨rfl, e⟩ | ⟨h, e⟩ <;> rw [e] <;> simp_all
theorem ofChar_eq_R (c : Char) : ofChar c = R ↔ c = 'R' := by
  rcases ofChar_cases c with ⟨rfl, e⟩ | ⟨rfl, e⟩ | ⟨rfl, e⟩ | ⟨rfl, e⟩ | ⟨rfl, e⟩ | ⟨rfl, e⟩ | ⟨rfl, e⟩
      | ⟨rfl, e⟩ | ⟨h, e⟩ <;> rw [e] <;> simp_all

theorem getLast_toL (v : CW) (l : Letter) (ch : Char) (hl : ∀ c, ofChar c = l ↔ c = ch) :
    (toL v).getLast? = some l ↔ v.getLast? = some ch := by
  simp only [toL, List.getLast?_map]
  cases v.getLast? with
  | none => simp
  | some x => simp [hl x]


theorem condV (v : CW) : (!v.isEmpty && v.getLast? != some 'U' && v.getLast? != some 'D') = true ↔
    ((toL v).length > 0 ∧ (toL v).getLast? ≠ some U ∧ (toL v).getLast? ≠ some D) := by
  have h1 := getLast_toL v U 'U' ofChar_eq_U
  have h2 := getLast_toL v D 'D' ofChar_eq_D
  have h3 : (toL v).length > 0 ↔ v.isEmpty = false := by cases v <;> simp [toL]
  simp only [Bool.and_eq_true, Bool.not_eq_true', bne_iff_ne, ne_eq, h1, h2, h3, and_assoc]

theorem condH (v : CW) : (!v.isEmpty && v.getLast? != some 'R' && v.getLast? != some 'L') = true ↔
    ((toL v).length > 0 ∧ (toL v).getLast? ≠ some R ∧ (toL v).getLast? ≠ some L) := by
  have h1 := getLast_toL v R 'R' ofChar_eq_R
  have h2 := getLast_toL v L 'L' ofChar_eq_L
  have h3 : (toL v).length > 0 ↔ v.isEmpty = false := by cases v <;> simp [toL]
  simp only [Bool.and_eq_true, Bool.not_eq_true', bne_iff_ne, ne_eq, h1, h2, h3, and_assoc]

theorem mem_step15 (v u : CW) :
    u ∈ ((if !v.isEmpty && v.getLast? != some 'U' && v.getLast? != some 'D'
          then [v ++ ['U'], v ++ ['D']] else []) ++
        (if !v.isEmpty && v.getLast? != some 'R' && v.getLast? != some 'L'
          then [v ++ ['L'], v ++ ['R']] else []) ++
        Model.C15.QUADS.map fun c => v ++ [c])
      ↔ ∃ ch, u = v ++ [ch] ∧ okNext (toL v) (ofChar ch) = true := by
  have hV := condV v
  have hH := condH v
  constructor
  · intro h
    simp only [List.mem_append, List.mem_map] at h
    rcases h with (h | h) | ⟨c, hc, rfl⟩
    · split at h
      · rename_i hc
        have := hV.mp hc
        simp only [List.mem_cons, List.not_mem_nil, or_false] at h
        rcases h with rfl | rfl
        · exact ⟨'U', rfl, by simp [okNext, ofChar, isQuad, isVert, this]⟩
        · exact ⟨'D', rfl, by simp [okNext, ofChar, isQuad, isVert, this]⟩
      · simp at h
    · split at h
      · rename_i hc
        have := hH.mp hc
        simp only [List.mem_cons, List.not_mem_nil, or_false] at h
        rcases h with rfl | rfl
        · exact ⟨'L', rfl, by simp [okNext, ofChar, isQuad, isVert, isHoriz, this]⟩
        · exact ⟨'R', rfl, by simp [okNext, ofChar, isQuad, isVert, isHoriz, this]⟩
      · simp at h
    · refine ⟨c, rfl, ?_⟩
      have : (ofChar c).isQuad = true := by rw [isQuad_ofChar]; simpa using hc
      simp [okNext, this]
  · rintro ⟨ch, rfl, h⟩
    simp only [List.mem_append, List.mem_map]
    rcases ofChar_cases ch with ⟨rfl, e⟩ | ⟨rfl, e⟩ | ⟨rfl, e⟩ | ⟨rfl, e⟩ | ⟨rfl, e⟩ | ⟨rfl, e⟩ | ⟨rfl, e⟩
      | ⟨rfl, e⟩ | ⟨_, e⟩ <;> rw [e] at h
    · exact Or.inr ⟨'1', by decide, rfl⟩
    · exact Or.inr ⟨'2', by decide, rfl⟩
    · exact Or.inr ⟨'3', by decide, rfl⟩
    · exact Or.inr ⟨'4', by decide, rfl⟩
    · left; left
      have : _ := hV.mpr (by simpa [okNext, isQuad, isVert, isHoriz] using h)
      rw [if_pos this]; simp
    · left; right
      have : _ := hH.mpr (by simpa [okNext, isQuad, isVert, isHoriz] using h)
      rw [if_pos this]; simp
    · left; left
      have : _ := hV.mpr (by simpa [okNext, isQuad, isVert, isHoriz] using h)
      rw [if_pos this]; simp
    · left; right
      have : _ := hH.mpr (by simpa [okNext, isQuad, isVert, isHoriz] using h)
      rw [if_pos this]; simp
    · simp [okNext, isQuad, isVert, isHoriz] at h

theorem toL_snoc_inv (u : CW) (w' : Word) (c : Letter) (h : toL u = w' ++ [c]) :
    ∃ v ch, u = v ++ [ch] ∧ toL v = w' ∧ ofChar ch = c := by
  simp only [toL] at h
  obtain ⟨v, t, rfl, hv, ht⟩ := List.map_eq_append_iff.mp h
  match t, ht with
  | [ch], ht =>
    simp only [List.map_cons, List.map_nil, List.cons.injEq, and_true] at ht
    exact ⟨v, ch, rfl, hv, ht⟩

/-- C15's copy of `pinwords_of_length` lists the same words as C14's -/
theorem mem_pw15 (n : Nat) : ∀ u : CW, u ∈ Model.C15.pinwordsOfLength n ↔ toL u ∈ pinwordsOfLength n := by
  induction n with
  | zero => intro u; simp [Model.C15.pinwordsOfLength, pinwordsOfLength, toL]
  | succ n ih =>
    intro u
    simp only [Model.C15.pinwordsOfLength, pinwordsOfLength, List.mem_flatMap, mem_extend]
    constructor
    · rintro ⟨v, hv, hu⟩
      obtain ⟨ch, rfl, hok⟩ := (mem_step15 v u).mp hu
      exact ⟨toL v, (ih v).mp hv, ofChar ch, by simp [toL], hok⟩
    · rintro ⟨w', hw', c, hu, hok⟩
      obtain ⟨v, ch, rfl, rfl, rfl⟩ := toL_snoc_inv u w' c hu
      exact ⟨v, (ih v).mpr hw', (mem_step15 v _).mpr ⟨ch, rfl, hok⟩⟩

end C14C15
