import PermutaModel.Lemmas.C13Closed
import Mathlib.Data.Nat.Fib.Basic
import Mathlib.Data.List.Sublists

/-! C13 helper lemmas, part 10: every one of the ten minimal non-polynomial classes has at least
    `fib (n+1)` members of each length `n` (`Nat.fib`: 0, 1, 1, 2, 3, 5, …).
    * `L2`: the direct sums of `1` and `21` of length `n` are listed by `l2Fam n`, exactly
      `fib (n+1)` of them (compositions of `n` into parts 1 and 2);
    * `W_{+,b}` (`b` increasing or decreasing): for every subset `A` of `{0..m-1}` the permutation
      `sorted(A) · m · sorted(rest)` (resp. `… reversed sorted(rest)`) of length `m+1` – `2^m ≥ fib (m+2)`
      distinct members;
    * the other seven classes are symmetric images of these three. -/
open List Model.C13 Spec.C13

namespace C13

/-- a duplicate-free list of at least `fib (n+1)` permutations of length `n` in class `t` -/
def FibFam (t n : Nat) (F : List NSeq) : Prop :=
  F.Nodup ∧ Nat.fib (n + 1) ≤ F.length ∧ ∀ σ ∈ F, IsPerm σ ∧ σ.length = n ∧ polyClass t σ

/-! ### `L2` -/

/-- all direct sums of `1`s and `21`s of total length `n` -/
def l2Fam : Nat → List NSeq
  | 0 => [[]]
  | 1 => [[0]]
  | n + 2 => (l2Fam (n + 1)).map (fun p => Model.directSum p [0]) ++
      (l2Fam n).map (fun p => Model.directSum p [1, 0])

theorem l2Fam_spec : ∀ (n : Nat) (σ : NSeq), σ ∈ l2Fam n → L2 σ ∧ σ.length = n
  | 0, σ, h => by
    simp [l2Fam] at h; subst h; exact ⟨L2.nil, rfl⟩
  | 1, σ, h => by
    simp [l2Fam] at h; subst h; exact ⟨L2_single, rfl⟩
  | n + 2, σ, h => by
    unfold l2Fam at h
    rcases List.mem_append.mp h with h | h
    · obtain ⟨p, hp, rfl⟩ := List.mem_map.mp h
      obtain ⟨h1, h2⟩ := l2Fam_spec (n + 1) p hp
      exact ⟨L2.one h1, by simp [Model.directSum, h2]⟩
    · obtain ⟨p, hp, rfl⟩ := List.mem_map.mp h
      obtain ⟨h1, h2⟩ := l2Fam_spec n p hp
      exact ⟨L2.two h1, by simp [Model.directSum, h2]⟩

theorem l2Fam_length : ∀ n : Nat, (l2Fam n).length = Nat.fib (n + 1)
  | 0 => by simp [l2Fam]
  | 1 => by simp [l2Fam]
  | n + 2 => by
    unfold l2Fam
    rw [List.length_append, List.length_map, List.length_map, l2Fam_length (n + 1), l2Fam_length n,
      Nat.fib_add_two (n := n + 1)]
    omega

theorem l2Fam_nodup : ∀ n : Nat, (l2Fam n).Nodup
  | 0 => by simp [l2Fam]
  | 1 => by simp [l2Fam]
  | n + 2 => by
    unfold l2Fam
    rw [List.nodup_append]
    refine ⟨?_, ?_, ?_⟩
    · refine (l2Fam_nodup (n + 1)).map_on ?_
      intro p _ q _ h
      simp only [Model.directSum, List.map_cons, List.map_nil, Nat.zero_add] at h
      exact (List.append_inj' h rfl).1
    · refine (l2Fam_nodup n).map_on ?_
      intro p _ q _ h
      simp only [Model.directSum, List.map_cons, List.map_nil, Nat.zero_add] at h
      exact (List.append_inj' h rfl).1
    · intro a ha b hb hab
      obtain ⟨p, hp, rfl⟩ := List.mem_map.mp ha
      obtain ⟨q, hq, rfl⟩ := List.mem_map.mp hb
      have hpl := (l2Fam_spec _ p hp).2
      have hql := (l2Fam_spec _ q hq).2
      have := congrArg List.getLast? hab
      simp [Model.directSum, hpl, hql] at this

theorem mem_l2Fam_of_L2 {σ : NSeq} (h : L2 σ) : σ ∈ l2Fam σ.length := by
  induction h with
  | nil => simp [l2Fam]
  | @one p hp ih =>
    have hl : (Model.directSum p [0]).length = p.length + 1 := by simp [Model.directSum]
    rw [hl]
    cases hn : p.length with
    | zero =>
      have : p = [] := List.length_eq_zero_iff.mp hn
      subst this; simp [l2Fam, Model.directSum]
    | succ k =>
      rw [hn] at ih
      unfold l2Fam
      exact List.mem_append_left _ (List.mem_map.mpr ⟨p, ih, rfl⟩)
  | @two p hp ih =>
    have hl : (Model.directSum p [1, 0]).length = p.length + 2 := by simp [Model.directSum]
    rw [hl]
    unfold l2Fam
    exact List.mem_append_right _ (List.mem_map.mpr ⟨p, ih, rfl⟩)

theorem mem_l2Fam_iff (n : Nat) (σ : NSeq) : σ ∈ l2Fam n ↔ L2 σ ∧ σ.length = n :=
  ⟨l2Fam_spec n σ, fun ⟨h1, h2⟩ => h2 ▸ mem_l2Fam_of_L2 h1⟩

theorem fibFam_L2 (n : Nat) : FibFam 8 n (l2Fam n) :=
  ⟨l2Fam_nodup n, by rw [l2Fam_length], fun σ h =>
    ⟨isPerm_of_L2 (l2Fam_spec n σ h).1, (l2Fam_spec n σ h).2, (l2Fam_spec n σ h).1⟩⟩

/-! ### `W_{+,+}` and `W_{+,-}` -/

/-- the values of `{0..m-1}` not in `A`, increasing -/
def wRest (m : Nat) (A : List Nat) : List Nat := (List.range m).filter fun x => decide (x ∉ A)

/-- `sorted(A) · m · sorted(rest)` for `up = true`, `sorted(A) · m · reversed sorted(rest)` otherwise -/
def wPerm (up : Bool) (m : Nat) (A : List Nat) : NSeq :=
  A ++ m :: (if up then wRest m A else (wRest m A).reverse)

def wFam (up : Bool) (m : Nat) : List NSeq := (List.range m).sublists.map (wPerm up m)

theorem wRest_inc (m : Nat) (A : List Nat) : (wRest m A).Pairwise (· < ·) :=
  List.pairwise_lt_range.sublist List.filter_sublist

theorem mem_wRest {m : Nat} {A : List Nat} {x : Nat} : x ∈ wRest m A ↔ x < m ∧ x ∉ A := by
  simp [wRest]

theorem mem_wTail {up : Bool} {m : Nat} {A : List Nat} {x : Nat} :
    x ∈ (if up then wRest m A else (wRest m A).reverse) ↔ x < m ∧ x ∉ A := by
  cases up <;> simp [mem_wRest]

theorem wPerm_isPerm (up : Bool) {m : Nat} {A : List Nat} (hA : A <+ List.range m) :
    IsPerm (wPerm up m A) ∧ (wPerm up m A).length = m + 1 := by
  have hAlt : ∀ x ∈ A, x < m := fun x hx => List.mem_range.mp (hA.subset hx)
  have hnd : (wPerm up m A).Nodup := by
    unfold wPerm
    rw [List.nodup_append]
    refine ⟨List.nodup_range.sublist hA, ?_, ?_⟩
    · rw [List.nodup_cons]
      refine ⟨fun h => by have := (mem_wTail.mp h).1; omega, ?_⟩
      have hr : (wRest m A).Nodup := List.nodup_range.sublist List.filter_sublist
      cases up
      · simpa using hr
      · simpa using hr
    · intro a ha b hb hab
      subst hab
      rcases List.mem_cons.mp hb with e | hb
      · have := hAlt a ha; omega
      · exact (mem_wTail.mp hb).2 ha
  have hmem : ∀ x, x ∈ wPerm up m A ↔ x ∈ List.range (m + 1) := by
    intro x
    unfold wPerm
    rw [List.mem_append, List.mem_cons, mem_wTail, List.mem_range]
    constructor
    · rintro (h | h | h)
      · have := hAlt x h; omega
      · omega
      · omega
    · intro h
      by_cases hx : x ∈ A
      · exact Or.inl hx
      · by_cases hm : x = m
        · exact Or.inr (Or.inl hm)
        · exact Or.inr (Or.inr ⟨by omega, hx⟩)
  have hlen : (wPerm up m A).length = m + 1 := by
    have := ((List.perm_ext_iff_of_nodup hnd List.nodup_range).mpr hmem).length_eq
    simpa using this
  refine ⟨⟨hnd, fun x hx => ?_⟩, hlen⟩
  rw [hlen]; exact List.mem_range.mp ((hmem x).mp hx)

theorem wPerm_juxt (up : Bool) {m : Nat} {A : List Nat} (hA : A <+ List.range m) :
    Juxt true up (wPerm up m A) := by
  have hAlt : ∀ x ∈ A, x < m := fun x hx => List.mem_range.mp (hA.subset hx)
  refine ⟨A.length + 1, ?_, ?_⟩
  · have : (wPerm up m A).take (A.length + 1) = A ++ [m] := by
      unfold wPerm
      rw [show A ++ m :: (if up then wRest m A else (wRest m A).reverse) =
        (A ++ [m]) ++ (if up then wRest m A else (wRest m A).reverse) by simp]
      rw [List.take_left']; simp
    rw [this]
    simp only [Mono, if_true]
    rw [List.pairwise_append]
    refine ⟨List.pairwise_lt_range.sublist hA, by simp, ?_⟩
    intro a ha b hb
    simp at hb; subst hb; exact hAlt a ha
  · have : (wPerm up m A).drop (A.length + 1) = (if up then wRest m A else (wRest m A).reverse) := by
      unfold wPerm
      rw [show A ++ m :: (if up then wRest m A else (wRest m A).reverse) =
        (A ++ [m]) ++ (if up then wRest m A else (wRest m A).reverse) by simp]
      rw [List.drop_left']; simp
    rw [this]
    cases up
    · simp only [Mono, Bool.false_eq_true, if_false]
      rw [List.pairwise_reverse]
      exact (wRest_inc m A).imp (fun h => h)
    · simp only [Mono, if_true]
      exact wRest_inc m A

theorem wFam_nodup (up : Bool) (m : Nat) : (wFam up m).Nodup := by
  unfold wFam
  refine (List.nodup_sublists.mpr List.nodup_range).map_on ?_
  intro A hA A' hA' h
  rw [List.mem_sublists] at hA hA'
  unfold wPerm at h
  have h1 : m ∉ A := fun hm => by have := List.mem_range.mp (hA.subset hm); omega
  have h2 : m ∉ (if up then wRest m A else (wRest m A).reverse) := fun hm => by
    have := (mem_wTail.mp hm).1; omega
  exact ((List.append_cons_inj_of_notMem h1 h2).mp h).1

theorem fib_le_two_pow : ∀ m : Nat, Nat.fib (m + 2) ≤ 2 ^ m ∧ Nat.fib (m + 1) ≤ 2 ^ m
  | 0 => by simp
  | m + 1 => by
    obtain ⟨h1, h2⟩ := fib_le_two_pow m
    refine ⟨?_, h1.trans (by rw [Nat.pow_succ]; omega)⟩
    have e : m + 1 + 1 = m + 2 := rfl
    rw [Nat.fib_add_two (n := m + 1), Nat.pow_succ, e]
    omega

/-- the `n = 0` member of every class: the empty permutation -/
theorem polyClass_nil (t : Nat) (ht : t < 10) : polyClass t [] := by
  have hj : ∀ a b, Juxt a b [] := fun a b => ⟨0, by cases a <;> simp [Mono], by cases b <;> simp [Mono]⟩
  rcases t with _|_|_|_|_|_|_|_|_|_|t
  · exact hj _ _
  · exact hj _ _
  · exact hj _ _
  · exact hj _ _
  · exact hj _ _
  · exact hj _ _
  · exact hj _ _
  · exact hj _ _
  · exact L2.nil
  · exact L2.nil
  · omega

theorem fibFam_zero (t : Nat) (ht : t < 10) : FibFam t 0 [[]] :=
  ⟨by simp, by simp, fun σ h => by
    simp at h; subst h
    exact ⟨⟨List.nodup_nil, by simp⟩, rfl, polyClass_nil t ht⟩⟩

theorem fibFam_W (up : Bool) (m : Nat) : FibFam (if up then 0 else 1) (m + 1) (wFam up m) := by
  refine ⟨wFam_nodup up m, ?_, ?_⟩
  · unfold wFam
    rw [List.length_map, List.length_sublists, List.length_range]
    exact (fib_le_two_pow m).1
  · intro σ h
    unfold wFam at h
    obtain ⟨A, hA, rfl⟩ := List.mem_map.mp h
    rw [List.mem_sublists] at hA
    refine ⟨(wPerm_isPerm up hA).1, (wPerm_isPerm up hA).2, ?_⟩
    cases up
    · exact wPerm_juxt false hA
    · exact wPerm_juxt true hA

/-! ### transport along a symmetry -/

theorem fibFam_map (g : NSeq → NSeq) (hg : ∀ p, IsPerm p → IsPerm (g p) ∧ (g p).length = p.length ∧ g (g p) = p)
    {s t n : Nat} (hcl : ∀ p, IsPerm p → (polyClass t (g p) ↔ polyClass s p)) {F : List NSeq}
    (hF : FibFam s n F) : FibFam t n (F.map g) := by
  obtain ⟨hnd, hlen, hall⟩ := hF
  refine ⟨hnd.map_on ?_, by rwa [List.length_map], ?_⟩
  · intro p hp q hq h
    have := congrArg g h
    rwa [(hg p (hall p hp).1).2.2, (hg q (hall q hq).1).2.2] at this
  · intro σ hσ
    obtain ⟨p, hp, rfl⟩ := List.mem_map.mp hσ
    obtain ⟨h1, h2, h3⟩ := hall p hp
    exact ⟨(hg p h1).1, by rw [(hg p h1).2.1, h2], (hcl p h1).mpr h3⟩

theorem sym_reverse (p : NSeq) (hp : IsPerm p) :
    IsPerm (Model.reverse p) ∧ (Model.reverse p).length = p.length ∧ Model.reverse (Model.reverse p) = p :=
  ⟨isPerm_reverse hp, by simp [Model.reverse], reverse_reverse' p⟩

theorem sym_complement (p : NSeq) (hp : IsPerm p) :
    IsPerm (Model.complement p) ∧ (Model.complement p).length = p.length ∧
      Model.complement (Model.complement p) = p :=
  ⟨isPerm_complement hp, by simp [Model.complement], C04.complement_complement hp⟩

theorem sym_inverse (p : NSeq) (hp : IsPerm p) :
    IsPerm (Model.inverse p) ∧ (Model.inverse p).length = p.length ∧ Model.inverse (Model.inverse p) = p :=
  ⟨isPerm_inverse hp, length_inverse p, inverse_inverse hp⟩

/-- **every one of the ten classes has a duplicate-free family of at least `fib (n+1)` members of
    length `n`** -/
theorem exists_fibFam (t : Nat) (ht : t < 10) (n : Nat) : ∃ F, FibFam t n F := by
  cases n with
  | zero => exact ⟨_, fibFam_zero t ht⟩
  | succ m =>
    have f0 : FibFam 0 (m + 1) (wFam true m) := fibFam_W true m
    have f1 : FibFam 1 (m + 1) (wFam false m) := fibFam_W false m
    have f3 : FibFam 3 (m + 1) _ :=
      fibFam_map Model.reverse sym_reverse (fun p hp => polyClass_reverse hp 3 (by omega)) f0
    have f2 : FibFam 2 (m + 1) _ :=
      fibFam_map Model.complement sym_complement (fun p hp => polyClass_complement hp 2 (by omega)) f1
    rcases t with _|_|_|_|_|_|_|_|_|_|t
    · exact ⟨_, f0⟩
    · exact ⟨_, f1⟩
    · exact ⟨_, f2⟩
    · exact ⟨_, f3⟩
    · exact ⟨_, fibFam_map Model.inverse sym_inverse (fun p hp => polyClass_inverse hp 4 (by omega)) f0⟩
    · exact ⟨_, fibFam_map Model.inverse sym_inverse (fun p hp => polyClass_inverse hp 5 (by omega)) f1⟩
    · exact ⟨_, fibFam_map Model.inverse sym_inverse (fun p hp => polyClass_inverse hp 6 (by omega)) f2⟩
    · exact ⟨_, fibFam_map Model.inverse sym_inverse (fun p hp => polyClass_inverse hp 7 (by omega)) f3⟩
    · exact ⟨_, fibFam_L2 (m + 1)⟩
    · exact ⟨_, fibFam_map Model.reverse sym_reverse (fun p hp => polyClass_reverse hp 9 (by omega))
        (fibFam_L2 (m + 1))⟩
    · omega

end C13
