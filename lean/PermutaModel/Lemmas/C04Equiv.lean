import PermutaModel.Lemmas.C04Rot
/-! C04 helper lemmas: classical containment is equivariant under the generators.
    An occurrence is handled as a strictly monotone *function* on positions (`Emb`). -/
open Model

namespace C04L

/-- `f` embeds `π` into `σ`: strictly monotone on the positions of `π`, into the positions of `σ`,
    order-isomorphic on values -/
structure Emb (π σ : NSeq) (f : Nat → Nat) : Prop where
  mono : ∀ a b, a < b → b < π.length → f a < f b
  rng : ∀ a, a < π.length → f a < σ.length
  iso : ∀ a b, a < π.length → b < π.length →
    (π.getD a 0 < π.getD b 0 ↔ σ.getD (f a) 0 < σ.getD (f b) 0)

theorem contains_iff_emb (σ π : NSeq) : Contains σ π ↔ ∃ f, Emb π σ f := by
  constructor
  · rintro ⟨c, hlen, hinc, hrng, hiso⟩
    refine ⟨fun a => c.getD a 0, ?_, ?_, hiso⟩
    · intro a b hab hb
      have hb' : b < c.length := by omega
      have ha' : a < c.length := by omega
      rw [getD_of_lt c ha', getD_of_lt c hb']
      exact (List.pairwise_iff_getElem.mp hinc) a b ha' hb' hab
    · intro a ha
      have ha' : a < c.length := by omega
      show c.getD a 0 < σ.length
      rw [getD_of_lt c ha']
      exact hrng _ (List.getElem_mem ha')
  · rintro ⟨f, hmono, hrng, hiso⟩
    refine ⟨(List.range π.length).map f, by simp, ?_, ?_, ?_⟩
    · unfold StrictInc
      rw [List.pairwise_iff_getElem]
      intro i j hi hj hij
      simp only [List.getElem_map, List.getElem_range]
      exact hmono i j hij (by simpa using hj)
    · intro i hi
      simp only [List.mem_map, List.mem_range] at hi
      obtain ⟨a, ha, rfl⟩ := hi
      exact hrng a ha
    · intro a b ha hb
      rw [getD_map_range f ha, getD_map_range f hb]
      exact hiso a b ha hb

theorem Emb.strict {π σ : NSeq} {f : Nat → Nat} (h : Emb π σ f) {a b : Nat} (ha : a < π.length)
    (hb : b < π.length) : a < b ↔ f a < f b := by
  constructor
  · intro hab; exact h.mono a b hab hb
  · intro hf
    by_contra hn
    rcases Nat.lt_or_ge b a with hba | hba
    · have := h.mono b a hba ha; omega
    · have : a = b := by omega
      subst this; omega

/-- reversal: the occurrence is read from the right -/
theorem Emb.reverse {π σ : NSeq} {f : Nat → Nat} (h : Emb π σ f) :
    Emb (reverse π) (reverse σ) (fun a => σ.length - 1 - f (π.length - 1 - a)) := by
  refine ⟨?_, ?_, ?_⟩
  · intro a b hab hb
    simp only [length_reverse] at hb
    have h1 := h.mono (π.length - 1 - b) (π.length - 1 - a) (by omega) (by omega)
    have h2 := h.rng (π.length - 1 - a) (by omega)
    show σ.length - 1 - f (π.length - 1 - a) < σ.length - 1 - f (π.length - 1 - b)
    omega
  · intro a ha
    simp only [length_reverse] at ha ⊢
    have h2 := h.rng (π.length - 1 - a) (by omega)
    show σ.length - 1 - f (π.length - 1 - a) < σ.length
    omega
  · intro a b ha hb
    simp only [length_reverse] at ha hb
    have ha2 := h.rng (π.length - 1 - a) (by omega)
    have hb2 := h.rng (π.length - 1 - b) (by omega)
    rw [getD_reverse π ha, getD_reverse π hb]
    show _ ↔ (Model.reverse σ).getD (σ.length - 1 - f (π.length - 1 - a)) 0
        < (Model.reverse σ).getD (σ.length - 1 - f (π.length - 1 - b)) 0
    rw [getD_reverse σ (by omega), getD_reverse σ (by omega)]
    have e1 : σ.length - 1 - (σ.length - 1 - f (π.length - 1 - a)) = f (π.length - 1 - a) := by omega
    have e2 : σ.length - 1 - (σ.length - 1 - f (π.length - 1 - b)) = f (π.length - 1 - b) := by omega
    rw [e1, e2]
    exact h.iso _ _ (by omega) (by omega)

/-- complement: the same positions, every comparison of values flips -/
theorem Emb.complement {π σ : NSeq} {f : Nat → Nat} (hπ : IsPerm π) (hσ : IsPerm σ) (h : Emb π σ f) :
    Emb (complement π) (complement σ) f := by
  refine ⟨?_, ?_, ?_⟩
  · intro a b hab hb
    exact h.mono a b hab (by simpa using hb)
  · intro a ha
    simpa using h.rng a (by simpa using ha)
  · intro a b ha hb
    simp only [length_complement] at ha hb
    have ha2 := h.rng a ha
    have hb2 := h.rng b hb
    rw [getD_complement π ha, getD_complement π hb, getD_complement σ ha2, getD_complement σ hb2]
    have := h.iso b a hb ha
    have p1 := hπ.getD_lt ha; have p2 := hπ.getD_lt hb
    have s1 := hσ.getD_lt ha2; have s2 := hσ.getD_lt hb2
    omega

/-- inverse: positions and values swap roles; the new occurrence lists the old occurrence's
    values in increasing order -/
theorem Emb.inverse {π σ : NSeq} {f : Nat → Nat} (hπ : IsPerm π) (hσ : IsPerm σ) (h : Emb π σ f) :
    Emb (inverse π) (inverse σ) (fun v => σ.getD (f (π.idxOf v)) 0) := by
  refine ⟨?_, ?_, ?_⟩
  · intro v w hvw hw
    simp only [length_inverse] at hw
    have hv : v < π.length := by omega
    have := (h.iso (π.idxOf v) (π.idxOf w) (hπ.idxOf_lt hv) (hπ.idxOf_lt hw)).mp
      (by rw [hπ.getD_idxOf hv, hπ.getD_idxOf hw]; exact hvw)
    exact this
  · intro v hv
    simp only [length_inverse] at hv ⊢
    exact hσ.getD_lt (h.rng _ (hπ.idxOf_lt hv))
  · intro v w hv hw
    simp only [length_inverse] at hv hw
    have ha := hπ.idxOf_lt hv
    have hb := hπ.idxOf_lt hw
    have ha2 := h.rng _ ha
    have hb2 := h.rng _ hb
    rw [getD_inverse π hv, getD_inverse π hw]
    show _ ↔ (Model.inverse σ).getD (σ.getD (f (π.idxOf v)) 0) 0
        < (Model.inverse σ).getD (σ.getD (f (π.idxOf w)) 0) 0
    rw [getD_inverse σ (hσ.getD_lt ha2), getD_inverse σ (hσ.getD_lt hb2), hσ.idxOf_getD ha2,
      hσ.idxOf_getD hb2]
    exact h.strict ha hb

theorem contains_reverse_of {σ π : NSeq} (h : Contains σ π) : Contains (reverse σ) (reverse π) := by
  rw [contains_iff_emb] at h ⊢
  obtain ⟨f, hf⟩ := h
  exact ⟨_, hf.reverse⟩

theorem contains_complement_of {σ π : NSeq} (hπ : IsPerm π) (hσ : IsPerm σ) (h : Contains σ π) :
    Contains (complement σ) (complement π) := by
  rw [contains_iff_emb] at h ⊢
  obtain ⟨f, hf⟩ := h
  exact ⟨_, hf.complement hπ hσ⟩

theorem contains_inverse_of {σ π : NSeq} (hπ : IsPerm π) (hσ : IsPerm σ) (h : Contains σ π) :
    Contains (inverse σ) (inverse π) := by
  rw [contains_iff_emb] at h ⊢
  obtain ⟨f, hf⟩ := h
  exact ⟨_, hf.inverse hπ hσ⟩

end C04L
