import PermutaModel.Lemmas.C14Trans
/-! C14 helper lemmas: the occurrence generators never raise on words of the language. -/
namespace C14L
open Model.C14 Model.C14.Letter Spec.C14 Proto

/-- letters of the alphabet only -/
def Alpha (w : Word) : Prop := ∀ x ∈ w, x.isQuad = true ∨ x.isDir = true

theorem chainOK_alpha (rest : Word) : ∀ p, chainOK p rest = true → Alpha rest := by
  induction rest with
  | nil => intro _ _ x hx; simp at hx
  | cons c rest ih =>
    intro p h x hx
    simp only [chainOK, Bool.and_eq_true, Bool.or_eq_true] at h
    rcases List.mem_cons.mp hx with rfl | hx
    · rcases h.1 with h1 | h1
      · exact Or.inl h1
      · exact Or.inr h1.1
    · exact ih c h.2 x hx

theorem inLang_alpha (w : Word) (h : inLang w = true) : Alpha w := by
  cases w with
  | nil => intro x hx; simp at hx
  | cons c rest =>
    simp only [inLang, Bool.and_eq_true] at h
    intro x hx
    rcases List.mem_cons.mp hx with rfl | hx
    · exact Or.inl h.1
    · exact chainOK_alpha rest c h.2 x hx

/-- every factor of a numeral-led word over the alphabet is numeral-led -/
theorem factor_heads (u : Word) (ha : Alpha u) (hh : ∀ c, u.head? = some c → c.isQuad = true) :
    ∀ f ∈ factor u, ∃ q ds, f = q :: ds ∧ q.isQuad = true := by
  fun_induction factor u with
  | case1 => intro f hf; simp at hf
  | case2 c rest ih =>
    intro f hf
    rcases List.mem_cons.mp hf with rfl | hf
    · exact ⟨c, _, rfl, hh c rfl⟩
    · apply ih _ _ f hf
      · intro x hx
        exact ha x (List.mem_cons_of_mem _ ((List.dropWhile_sublist _).subset hx))
      · intro d hd
        have hmem : d ∈ rest.dropWhile isDir := List.mem_of_mem_head? hd
        have hnd : ¬ d.isDir = true := by
          cases hdw : rest.dropWhile isDir with
          | nil => simp [hdw] at hd
          | cons y ys =>
            simp only [hdw, List.head?_cons, Option.some.injEq] at hd
            subst hd
            have := List.head_dropWhile_not isDir (l := rest) (by simp [hdw])
            simpa [hdw] using this
        rcases ha d (List.mem_cons_of_mem _ ((List.dropWhile_sublist _).subset hmem)) with h | h
        · exact h
        · exact absurd h hnd

theorem occSpOver_noerr (w : Word) (hw : inLang w = true) (q : Letter) (ds : Word) (hq : q.isQuad = true)
    (idxs : List Nat) (hi : ∀ i ∈ idxs, i < w.length) : (occSpOver w (q :: ds) idxs).2 = none := by
  induction idxs with
  | nil => rfl
  | cons i rest ih =>
    have h1 := quadrant_eq_signs w hw i (hi i List.mem_cons_self)
    have h2 : quadrant (q :: ds) 0 = .ok q := by simp [quadrant, hq]
    have ih' := ih fun j hj => hi j (List.mem_cons_of_mem _ hj)
    simp only [occSpOver, occSpTest, h1, h2]
    split
    · rename_i h; cases h
    · exact ih'
    · exact ih'

theorem occSp_noerr (w : Word) (hw : inLang w = true) (q : Letter) (ds : Word) (hq : q.isQuad = true)
    (start : Nat) : (occSp w (q :: ds) start).2 = none := by
  apply occSpOver_noerr w hw q ds hq
  intro i hi
  simp only [List.mem_range'_1] at hi
  omega

theorem bindOver_noerr {α β} (f : α → Gen β) (l : List α) (hf : ∀ a ∈ l, (f a).2 = none) :
    (bindOver f none l).2 = none := by
  induction l with
  | nil => rfl
  | cons a l ih =>
    simp only [bindOver, hf a List.mem_cons_self]
    exact ih fun b hb => hf b (List.mem_cons_of_mem _ hb)

theorem occRec_noerr (w : Word) (hw : inLang w = true) (fs : List Word)
    (hfs : ∀ f ∈ fs, ∃ q ds, f = q :: ds ∧ q.isQuad = true) :
    ∀ i res, (occRec w fs i res).2 = none := by
  induction fs with
  | nil => intro i res; rfl
  | cons f fs ih =>
    intro i res
    obtain ⟨q, ds, rfl, hq⟩ := hfs _ List.mem_cons_self
    simp only [occRec]
    split
    · rfl
    · simp only [bindStream, occSp_noerr w hw q ds hq i]
      apply bindOver_noerr
      intro a _
      exact ih (fun f hf => hfs f (List.mem_cons_of_mem _ hf)) _ _

theorem occurrences_noerr (w u : Word) (hw : inLang w = true) (hu : inLang u = true) :
    (occurrences w u).2 = none := by
  apply occRec_noerr w hw
  apply factor_heads u (inLang_alpha u hu)
  intro c hc
  cases u with
  | nil => simp at hc
  | cons d rest =>
    simp only [List.head?_cons, Option.some.injEq] at hc
    subst hc
    simp only [inLang, Bool.and_eq_true] at hu
    exact hu.1

end C14L
