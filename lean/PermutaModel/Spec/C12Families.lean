import PermutaModel.Spec.Basic
/-! C12 specification side, continued: the named families `simsun`, `baxter`, `forest_like` by their
    textbook, index-level definitions (entries `σ.getD i 0` at positions `i`).  No mesh pattern, no
    shading, no occurrence tuple appears here.  Import-free. -/

namespace Spec

/-- a word has a *double descent*: three consecutive entries that are strictly decreasing -/
def HasDoubleDescent (l : List Nat) : Prop :=
  ∃ i, i + 2 < l.length ∧ l.getD (i + 1) 0 < l.getD i 0 ∧ l.getD (i + 2) 0 < l.getD (i + 1) 0

/-- **simsun** (Simion–Sundaram): for every `k = 0 … n` the restriction of the word to the values
    `{0, …, k-1}` (entries kept in their order) has no double descent -/
def IsSimsun (σ : NSeq) : Prop :=
  ∀ k, k ≤ σ.length → ¬ HasDoubleDescent (σ.filter (· < k))

/-- an occurrence of the vincular pattern 2-41-3 (0-based 1-30-2): positions `i < j < j+1 < k`,
    the middle two adjacent, with `σ[j+1] < σ[i] < σ[k] < σ[j]` -/
def Has2413v (σ : NSeq) : Prop :=
  ∃ i j k, i < j ∧ j + 1 < k ∧ k < σ.length ∧
    σ.getD (j + 1) 0 < σ.getD i 0 ∧ σ.getD i 0 < σ.getD k 0 ∧ σ.getD k 0 < σ.getD j 0

/-- an occurrence of the vincular pattern 3-14-2 (0-based 2-03-1): positions `i < j < j+1 < k`,
    the middle two adjacent, with `σ[j] < σ[k] < σ[i] < σ[j+1]` -/
def Has3142v (σ : NSeq) : Prop :=
  ∃ i j k, i < j ∧ j + 1 < k ∧ k < σ.length ∧
    σ.getD j 0 < σ.getD k 0 ∧ σ.getD k 0 < σ.getD i 0 ∧ σ.getD i 0 < σ.getD (j + 1) 0

/-- **Baxter**: no `i < j < j+1 < k` with `σ[j+1] < σ[i] < σ[k] < σ[j]` or `σ[j] < σ[k] < σ[i] < σ[j+1]` -/
def IsBaxter (σ : NSeq) : Prop := ¬ Has2413v σ ∧ ¬ Has3142v σ

/-- an occurrence of the classical pattern 1324: `a < b < c < d` with `σ[a] < σ[c] < σ[b] < σ[d]` -/
def Has1324 (σ : NSeq) : Prop :=
  ∃ a b c d, a < b ∧ b < c ∧ c < d ∧ d < σ.length ∧
    σ.getD a 0 < σ.getD c 0 ∧ σ.getD c 0 < σ.getD b 0 ∧ σ.getD b 0 < σ.getD d 0

/-- **forest-like** (Bousquet-Mélou & Butler): avoids 1324 and the barred pattern 21\bar{3}54, i.e.
    every occurrence `a < b < c < d`, `σ[b] < σ[a] < σ[d] < σ[c]` of 2143 extends to an occurrence
    of 21354 by an entry at a position between `b` and `c` with a value between `σ[a]` and `σ[d]` -/
def IsForestLike (σ : NSeq) : Prop :=
  ¬ Has1324 σ ∧
  ∀ a b c d, a < b → b < c → c < d → d < σ.length →
    σ.getD b 0 < σ.getD a 0 → σ.getD a 0 < σ.getD d 0 → σ.getD d 0 < σ.getD c 0 →
    ∃ m, b < m ∧ m < c ∧ σ.getD a 0 < σ.getD m 0 ∧ σ.getD m 0 < σ.getD d 0

end Spec
