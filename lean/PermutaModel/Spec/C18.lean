import PermutaModel.Model.Mesh
/-! C18 specification vocabulary: mesh-pattern occurrences in a permutation, from the definition.
    Import-free. -/

namespace Spec.C18

/-- the cell of position `i` of `σ` in the grid of the index tuple `c`:
    (number of tuple indices left of `i`, number of tuple values below `σ[i]`) -/
def cellOf (σ : NSeq) (c : List Nat) (i : Nat) : Cell :=
  (c.countP (fun k => decide (k < i)), c.countP (fun k => decide (σ.getD k 0 < σ.getD i 0)))

/-- `c` is an occurrence of the mesh pattern `μ` in `σ`: an occurrence of the underlying classical
    pattern such that no other point of `σ` lies in a shaded cell -/
structure MeshOcc (μ : Mesh) (σ : NSeq) (c : List Nat) : Prop where
  occ : IsOcc μ.pattern σ c
  free : ∀ i, i < σ.length → i ∉ c → cellOf σ c i ∉ μ.shading

/-- `σ` contains the mesh pattern `μ` -/
def MeshContains (σ : NSeq) (μ : Mesh) : Prop := ∃ c, MeshOcc μ σ c

/-- a mesh pattern as the constructor accepts it: a permutation and cells inside the grid -/
def ValidMesh (μ : Mesh) : Prop :=
  IsPerm μ.pattern ∧ ∀ c ∈ μ.shading, c.1 ≤ μ.pattern.length ∧ c.2 ≤ μ.pattern.length

end Spec.C18
