import PermutaModel.Model.Perm
/-! C13 specification vocabulary: the classes the structure theorems talk about, written without
    reference to the code (no scans, no bit masks).  Executable deciders are given where they are used
    by the driver (`juxtB`, `l2B`). -/

namespace Spec.C13

/-- strictly monotone list: `up = true` increasing, `up = false` decreasing -/
def Mono (up : Bool) (l : List Nat) : Prop :=
  if up then l.Pairwise (· < ·) else l.Pairwise (· > ·)

instance (up : Bool) (l : List Nat) : Decidable (Mono up l) := by unfold Mono; infer_instance

/-- horizontal juxtaposition class `W_{ab}`: a monotone-`a` prefix followed by a monotone-`b` suffix -/
def Juxt (a b : Bool) (σ : NSeq) : Prop := ∃ k, Mono a (σ.take k) ∧ Mono b (σ.drop k)

/-- decider of `Juxt` (only the cuts `0 … |σ|` matter) -/
def juxtB (a b : Bool) (σ : NSeq) : Bool :=
  (List.range (σ.length + 1)).any fun k => decide (Mono a (σ.take k)) && decide (Mono b (σ.drop k))

/-- `L2`: direct sums of copies of `1` and `21` -/
inductive L2 : NSeq → Prop
  | nil : L2 []
  | one {p : NSeq} : L2 p → L2 (Model.directSum p [0])
  | two {p : NSeq} : L2 p → L2 (Model.directSum p [1, 0])

/-- the ten minimal non-polynomial classes, numbered as `PermType` numbers them:
    0-3 `W++ W+- W-+ W--`, 4-7 their inverses, 8 `L2`, 9 the reverse of `L2` -/
def polyClass (t : Nat) (σ : NSeq) : Prop :=
  match t with
  | 0 => Juxt true true σ
  | 1 => Juxt true false σ
  | 2 => Juxt false true σ
  | 3 => Juxt false false σ
  | 4 => Juxt true true (Model.inverse σ)
  | 5 => Juxt true false (Model.inverse σ)
  | 6 => Juxt false true (Model.inverse σ)
  | 7 => Juxt false false (Model.inverse σ)
  | 8 => L2 σ
  | 9 => L2 (Model.reverse σ)
  | _ => False

/-- Erdős–Szekeres side: a basis with an increasing and a decreasing permutation -/
def Finite (B : List NSeq) : Prop :=
  (∃ p ∈ B, p = Model.identity p.length) ∧ (∃ p ∈ B, p = Model.monoDec p.length)

/-- polynomial growth criterion: the basis meets each of the ten classes -/
def Polynomial (B : List NSeq) : Prop := ∀ t, t < 10 → ∃ b ∈ B, polyClass t b

/-- regular insertion encoding, new entry inserted at the right: the basis meets each of the four
    horizontal juxtaposition classes -/
def Rightmost (B : List NSeq) : Prop := ∀ a b : Bool, ∃ p ∈ B, Juxt a b p

end Spec.C13
