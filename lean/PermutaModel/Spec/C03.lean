import PermutaModel.Spec.Mesh
/-! C03 specification of bivincular / vincular / covincular patterns by adjacency requirements
    (import-free). -/

namespace Spec

/-- first position to the right of the `(j-1)`-th occurrence point (`0` when `j = 0`) -/
def prevPos (c : List Nat) (j : Nat) : Nat := if j = 0 then 0 else c.getD (j-1) 0 + 1

/-- adjacency requirement `j` on positions, for an occurrence `c` (of length `k`) in a permutation of
    length `n`: `j = 0` anchors the first point to position `0`, `j = k` anchors the last point to
    position `n-1`, otherwise points `j-1` and `j` are at adjacent positions -/
def AdjPos (c : List Nat) (n j : Nat) : Prop := c.getD j n = prevPos c j

instance (c n j) : Decidable (AdjPos c n j) := by unfold AdjPos; infer_instance

/-- the value in `σ` playing the role of the pattern value `v` in the occurrence `c` of `π` -/
def valAt (π σ : NSeq) (c : List Nat) (v : Nat) : Nat := σ.getD (c.getD (π.idxOf v) 0) 0

/-- adjacency requirement `v` on values: `v = 0` anchors the smallest occurrence value to `0`,
    `v = k` anchors the largest one to `n-1`, otherwise the points playing `v-1` and `v` have
    adjacent values -/
def AdjVal (π σ : NSeq) (c : List Nat) (v : Nat) : Prop :=
  (if v < π.length then valAt π σ c v else σ.length) = (if v = 0 then 0 else valAt π σ c (v-1) + 1)

instance (π σ c v) : Decidable (AdjVal π σ c v) := by unfold AdjVal; infer_instance

/-- occurrence of the bivincular pattern `(π, I, V)` in `σ` -/
structure AdjOcc (π : NSeq) (I V : List Nat) (σ : NSeq) (c : List Nat) : Prop where
  occ : IsOcc π σ c
  pos : ∀ j ∈ I, AdjPos c σ.length j
  val : ∀ v ∈ V, AdjVal π σ c v

end Spec
