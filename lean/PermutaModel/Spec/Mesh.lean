import PermutaModel.Model.Mesh
import PermutaModel.Spec.Basic
/-! Shared specification vocabulary for mesh patterns (import-free, executable):
    the cell of a point relative to an occurrence, mesh occurrences, mesh containment. -/

namespace Spec

/-- number of entries of `c` that are `< i` -/
def countLt (c : List Nat) (i : Nat) : Nat := (c.filter (· < i)).length

/-- the cell of the grid drawn through the occurrence `c` of `σ` in which the point at position
    `i` lies: (number of occurrence indices `< i`, number of occurrence values `< σ[i]`) -/
def cellOf (σ : NSeq) (c : List Nat) (i : Nat) : Cell :=
  ((c.filter (· < i)).length, (c.filter fun j => σ.getD j 0 < σ.getD i 0).length)

/-- no point of `σ` outside the occurrence `c` lies in a cell of `R` (Boolean) -/
def meshOk (R : List Cell) (σ : NSeq) (c : List Nat) : Bool :=
  (List.range σ.length).all fun i => c.contains i || !R.contains (cellOf σ c i)

/-- specification listing: classical occurrences (lexicographic) filtered by the shading condition -/
def meshOccs (m : Mesh) (σ : NSeq) : List (List Nat) :=
  (Spec.occurrences m.pattern σ).filter (meshOk m.shading σ)

end Spec

/-- `c` is an occurrence of the mesh pattern `m` in `σ`: an occurrence of the underlying pattern
    such that no other point of `σ` falls in a shaded cell of the grid through the occurrence -/
structure MeshOcc (m : Mesh) (σ : NSeq) (c : List Nat) : Prop where
  occ : IsOcc m.pattern σ c
  free : ∀ i, i < σ.length → i ∉ c → Spec.cellOf σ c i ∉ m.shading

/-- `σ` contains the mesh pattern `m` -/
def MeshContains (σ : NSeq) (m : Mesh) : Prop := ∃ c, MeshOcc m σ c
