import PermutaModel.Model.Mesh
/-! C17 specification: the three guarantees of BiSC as executable deciders for a concrete
    input set `A`, bounds `m`, `n` and a concrete list `SG` of learned mesh patterns.
    Mesh containment is `Model.containsMesh` (Model/Mesh.lean, proved against the mesh-occurrence
    spec by C03); nothing here shares structure with `bisc_subfunctions.py`. -/

namespace Spec.C17

/-- every member of `A` of length at most `n` avoids every learned pattern -/
def soundB (A : List NSeq) (n : Nat) (SG : List Mesh) : Bool :=
  A.all fun σ => decide (n < σ.length) || SG.all fun p => !Model.containsMesh σ p

/-- every permutation of length at most `m` that is not in `A` contains a learned pattern -/
def completeB (A : List NSeq) (m : Nat) (SG : List Mesh) : Bool :=
  (Model.permsUpTo m).all fun σ => A.contains σ || SG.any fun p => Model.containsMesh σ p

/-- bounds `[lo, hi]` of the strip of the big grid that slot `x` of an occurrence with sorted
    coordinates `cs` (positions, or values) occupies; `N` = size of the big pattern -/
def stripLo (cs : List Nat) (x : Nat) : Nat := if x = 0 then 0 else cs.getD (x - 1) 0 + 1
def stripHi (cs : List Nat) (N x : Nat) : Nat := if x = cs.length then N else cs.getD x 0

def insertSorted (a : Nat) : List Nat → List Nat
  | [] => [a]
  | b :: t => if a ≤ b then a :: b :: t else b :: insertSorted a t

/-- the mesh pattern `big` contains the mesh pattern `small`: some classical occurrence `c` of
    `small.pattern` in `big.pattern` such that for every shaded cell of `small` the whole
    corresponding rectangle of `big`'s grid is shaded and holds no point of `big` -/
def meshInMesh (big small : Mesh) : Bool :=
  (Model.occurrencesIn small.pattern big.pattern).any fun c =>
    let N := big.pattern.length
    let vs := (c.map fun i => big.pattern.getD i 0).foldr insertSorted []
    small.shading.all fun cell =>
      decide (cell.1 ≤ c.length) && decide (cell.2 ≤ c.length) &&
      ((List.range (N + 1)).all fun a => (List.range (N + 1)).all fun b =>
        !(decide (stripLo c cell.1 ≤ a) && decide (a ≤ stripHi c N cell.1) &&
          decide (stripLo vs cell.2 ≤ b) && decide (b ≤ stripHi vs N cell.2)) ||
        big.shading.contains (a, b)) &&
      ((List.range N).all fun i =>
        !(decide (stripLo c cell.1 ≤ i) && decide (i < stripHi c N cell.1) &&
          decide (stripLo vs cell.2 ≤ big.pattern.getD i 0) &&
          decide (big.pattern.getD i 0 < stripHi vs N cell.2)))

/-- no learned shading can lose a cell unless the weakened pattern occurs in a member of `A` of
    length at most `n` or contains a shorter learned pattern -/
def irredundantB (A : List NSeq) (n : Nat) (SG : List Mesh) : Bool :=
  SG.all fun p => p.shading.all fun r =>
    let q : Mesh := ⟨p.pattern, p.shading.filter fun c => c != r⟩
    (A.any fun σ => decide (σ.length ≤ n) && Model.containsMesh σ q) ||
    (SG.any fun s => decide (s.pattern.length < p.pattern.length) && meshInMesh q s)

end Spec.C17
