import PermutaModel.Model.Mesh
/-! Specification of C02 (no Mathlib; executable): level `n` of `Av(b)` is "all permutations of
    length `n` in lexicographic order, filtered by avoidance" - no cache, no insertion encoding. -/

namespace Spec.C02

/-- the permutations of length `n` avoiding every classical pattern of `b` -/
def level (b : List NSeq) (n : Nat) : List NSeq :=
  (Model.permsLex n).filter (fun p => Model.avoidsAll p b)

/-- the permutations of length `n` avoiding every mesh pattern of `b` -/
def meshLevel (b : List Mesh) (n : Nat) : List NSeq :=
  (Model.permsLex n).filter (fun p => b.all fun m => !Model.containsMesh p m)

end Spec.C02
