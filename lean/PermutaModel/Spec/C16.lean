import PermutaModel.Spec.C04
import PermutaModel.Spec.C10
/-!
# C16 — specification vocabulary (Mathlib-free, not linked into the driver)

* proper pin sequences of points (`C16P.PinSeqA`, Brignall–Huczynska–Vatter), as abstract point geometry;
* the three explicit families of simple permutations: parallel alternations `C16Fam.parAlt`, wedge
  permutations of the first and of the second kind `C16Fam.wedge1`, `C16Fam.wedge2`;
* what it means for a permutation to *contain* a proper pin sequence / a family member;
* the statement of the unavoidable-substructures theorem of Brignall–Huczynska–Vatter
  (`Spec.C16.UnavoidableSubstructures`) – a `Prop`; its proof is in `Lemmas/C16Bhv*.lean`.
-/

namespace C16P

abbrev Pt := Rat × Rat

/-- the coordinate on which a vertical (`true`) / horizontal (`false`) pin lies *between* -/
def co (v : Bool) (p : Pt) : Rat := if v then p.1 else p.2

/-- in coordinate `f`, `p` lies strictly between `q` and every point of `rest` -/
def Btw (f : Pt → Rat) (p q : Pt) (rest : List Pt) : Prop :=
  ((∀ r ∈ rest, f r < f p) ∧ f p < f q) ∨ ((∀ r ∈ rest, f p < f r) ∧ f q < f p)

/-- in coordinate `f`, `p` lies strictly beyond every point of `l`, on one side -/
def Extr (f : Pt → Rat) (p : Pt) (l : List Pt) : Prop :=
  (∀ r ∈ l, f r < f p) ∨ (∀ r ∈ l, f p < f r)

/-- `p` is a proper pin for `q :: rest`: it separates `q` from `rest` and is extremal on the other axis -/
def SepA (v : Bool) (p q : Pt) (rest : List Pt) : Prop :=
  Btw (co v) p q rest ∧ Extr (co (!v)) p (q :: rest)

/-- proper pin sequence, newest point first; the Boolean is the axis of the newest pin -/
def PinSeqA : Bool → List Pt → Prop
  | v, p :: q :: r :: rest => SepA v p q (r :: rest) ∧ PinSeqA (!v) (q :: r :: rest)
  | _, _ => True

end C16P

namespace C16Fam

/-- parallel alternation: the even values decreasing, then the odd values decreasing
    (`2m-2, …, 2, 0, 2m-1, …, 3, 1`) -/
def altEntry (m p : Nat) : Nat := if p < m then 2 * (m - 1 - p) else 2 * (2 * m - 1 - p) + 1
def parAlt (m : Nat) : NSeq := (List.range (2 * m)).map (altEntry m)

/-- wedge permutation of the first kind: `m-1, m+1, m-2, m+2, …, 0, 2m, m`
    (a wedge alternation with apex on the left, and one more point in its mouth) -/
def w1Entry (m p : Nat) : Nat :=
  if p = 2 * m then m else if p % 2 = 0 then m - 1 - p / 2 else m + 1 + p / 2
def wedge1 (m : Nat) : NSeq := (List.range (2 * m + 1)).map (w1Entry m)

/-- wedge permutation of the second kind: `1, 3, …, 2m-3, 2m, 2m-2, …, 2, 0, 2m-1`
    (increasing odd values, the maximum, decreasing even values, and the second largest value last) -/
def w2Entry (m p : Nat) : Nat :=
  if p + 1 < m then 2 * p + 1 else if p + 1 = m then 2 * m else if p < 2 * m then 2 * (2 * m - 1 - p) else 2 * m - 1
def wedge2 (m : Nat) : NSeq := (List.range (2 * m + 1)).map (w2Entry m)

end C16Fam

namespace Spec.C16

/-- the point `(i, τ(i))` of the entry at position `i` -/
def entry (τ : NSeq) (i : Nat) : C16P.Pt := (((i : Nat) : Rat), ((τ.getD i 0 : Nat) : Rat))

/-- the plot of a permutation: the points `(i, τ(i))` -/
def plot (τ : NSeq) : List C16P.Pt :=
  (List.range τ.length).map fun i => (((i : Nat) : Rat), ((τ.getD i 0 : Nat) : Rat))

/-- `τ` contains a proper pin sequence of `k` points (as a sub-configuration of its plot) -/
def HasPinSeq (τ : NSeq) (k : Nat) : Prop :=
  ∃ (L : List C16P.Pt) (v : Bool), C16P.PinSeqA v L ∧ L.Nodup ∧ L.length = k ∧ ∀ p ∈ L, p ∈ plot τ

/-- `τ` contains, in one of the eight orientations, the member of index `k` of one of the three families:
    a parallel alternation of length `2k`, or a wedge permutation of either kind of length `2k + 1` -/
def HasFamilyMember (τ : NSeq) (k : Nat) : Prop :=
  ∃ g : D8, Contains τ (g.act (C16Fam.parAlt k)) ∨ Contains τ (g.act (C16Fam.wedge1 k)) ∨
    Contains τ (g.act (C16Fam.wedge2 k))

/-- **the unavoidable-substructures theorem** (Brignall, Huczynska, Vatter, *Decomposing simple
    permutations, with enumerative consequences*, Combinatorica 28 (2008), Theorem 1.4; used by Brignall,
    Ruškuc, Vatter, *Simple permutations: decidability and unavoidable substructures*): for every `k` there
    is `N` such that every simple permutation of length at least `N` contains a proper pin sequence of
    length `k`, a parallel alternation of length `2k`, or a wedge simple permutation of length `2k + 1`.
    This is the *statement*; it is proved in `Lemmas/C16BhvFinal.lean` (`C16Conv.unavoidable_substructures`,
    restated as `C16.unavoidable_substructures` in `Props/C16.lean`). -/
def UnavoidableSubstructures : Prop :=
  ∀ k, ∃ N, ∀ τ, IsPerm τ → Spec.C10.IsSimple τ → N ≤ τ.length → HasPinSeq τ k ∨ HasFamilyMember τ k

end Spec.C16
