import PermutaModel.Model.C04
/-! C04 specification vocabulary: the dihedral group of the square as words `reverse^r ∘ complement^c ∘
    inverse^i` with its multiplication table, and mesh containment in the property's wording.
    Import-free, executable. -/

/-- an element of the dihedral group of order 8 in normal form `reverse^r ∘ complement^c ∘ inverse^i` -/
structure D8 where
  r : Bool
  c : Bool
  i : Bool
deriving DecidableEq, Repr

namespace D8

def one : D8 := ⟨false, false, false⟩

/-- composition `g ∘ h` in normal form: moving `inverse` past `reverse^a complement^b` swaps the two -/
def mul (g h : D8) : D8 :=
  if g.i then ⟨g.r != h.c, g.c != h.r, !h.i⟩ else ⟨g.r != h.r, g.c != h.c, h.i⟩

/-- the inverse element -/
def inv (g : D8) : D8 := if g.i then ⟨g.c, g.r, true⟩ else g

/-- all eight elements -/
def all : List D8 :=
  [⟨false, false, false⟩, ⟨true, false, false⟩, ⟨false, true, false⟩, ⟨true, true, false⟩,
   ⟨false, false, true⟩, ⟨true, false, true⟩, ⟨false, true, true⟩, ⟨true, true, true⟩]

/-- the action on one-line notation -/
def act (g : D8) (p : NSeq) : NSeq :=
  let q := if g.i then Model.inverse p else p
  let q := if g.c then Model.complement q else q
  if g.r then Model.reverse q else q

/-- the action on a mesh pattern (pattern and cells) -/
def actMesh (g : D8) (m : Mesh) : Mesh :=
  let q := if g.i then Model.meshInverse m else m
  let q := if g.c then Model.meshComplement q else q
  if g.r then Model.meshReverse q else q

end D8

namespace Spec
/-- number of entries of `l` below `x` -/
def countLt (l : List Nat) (x : Nat) : Nat := (l.filter (· < x)).length
end Spec

/-- `c` is an occurrence of the mesh pattern `m` in `σ` (the property's wording): a classical
    occurrence of the underlying pattern such that no other point of `σ` lies in a shaded cell;
    the point at position `i` lies in the cell (number of occurrence positions to its left,
    number of occurrence values below it) -/
structure IsMeshOcc (m : Mesh) (σ : NSeq) (c : List Nat) : Prop where
  occ : IsOcc m.pattern σ c
  free : ∀ i, i < σ.length → i ∉ c →
    (Spec.countLt c i, Spec.countLt (c.map fun j => σ.getD j 0) (σ.getD i 0)) ∉ m.shading

/-- `σ` contains the mesh pattern `m` -/
def MeshContains (σ : NSeq) (m : Mesh) : Prop := ∃ c, IsMeshOcc m σ c

/-- the order in which the code produces the eight images: self, inverse, and for each of the three
    successive quarter turns the turn and its inverse -/
def codeOrder : List D8 :=
  [⟨false, false, false⟩, ⟨false, false, true⟩, ⟨false, true, true⟩, ⟨true, false, false⟩,
   ⟨true, true, false⟩, ⟨true, true, true⟩, ⟨true, false, true⟩, ⟨false, true, false⟩]


/-- the rotation by `t` quarter turns as an element of `D8` -/
def rotD8 (t : Int) : D8 :=
  if t % 4 = 0 then D8.one
  else if t % 4 = 2 then ⟨true, true, false⟩
  else if t % 4 = 1 then ⟨false, true, true⟩
  else ⟨true, false, true⟩


/-- a well-formed mesh pattern: the pattern is a permutation and every cell lies in `[0, n]²`
    (the `assert` of `MeshPatt.__init__`) -/
def MeshOK (m : Mesh) : Prop := IsPerm m.pattern ∧ ∀ c ∈ m.shading, c.1 ≤ m.pattern.length ∧ c.2 ≤ m.pattern.length

