import PermutaModel.Spec.Basic
/-! C12 / RSK specification vocabulary: longest increasing / decreasing subsequences of a word,
    stated with the subsequence relation `<+` of core only (no shared structure with the insertion code). -/

namespace Spec

/-- `k` is the length of a longest strictly increasing subsequence of `w`
    (some subsequence is increasing of length `k`, none is longer) -/
def IsLIS (w : List Nat) (k : Nat) : Prop :=
  (∃ s, List.Sublist s w ∧ s.Pairwise (· < ·) ∧ s.length = k) ∧
    ∀ s, List.Sublist s w → s.Pairwise (· < ·) → s.length ≤ k

/-- `k` is the length of a longest strictly decreasing subsequence of `w` -/
def IsLDS (w : List Nat) (k : Nat) : Prop :=
  (∃ s, List.Sublist s w ∧ s.Pairwise (· > ·) ∧ s.length = k) ∧
    ∀ s, List.Sublist s w → s.Pairwise (· > ·) → s.length ≤ k

theorem IsLIS.unique {w : List Nat} {a b : Nat} (ha : IsLIS w a) (hb : IsLIS w b) : a = b := by
  obtain ⟨⟨s, h1, h2, h3⟩, hm⟩ := ha
  obtain ⟨⟨t, k1, k2, k3⟩, km⟩ := hb
  have := hm t k1 k2
  have := km s h1 h2
  omega

theorem IsLDS.unique {w : List Nat} {a b : Nat} (ha : IsLDS w a) (hb : IsLDS w b) : a = b := by
  obtain ⟨⟨s, h1, h2, h3⟩, hm⟩ := ha
  obtain ⟨⟨t, k1, k2, k3⟩, km⟩ := hb
  have := hm t k1 k2
  have := km s h1 h2
  omega

/-! ### unions of `k` increasing subsequences (Greene), through colourings of the letters

A union of `k` increasing subsequences of a duplicate-free word is a colouring of some of its letters
with the colours `0 … k-1` (any value `≥ k` = "not used") such that every colour class, read in the order
of the word, is increasing. -/

/-- the letters of colour `i`, in the order of the word -/
def colourClass (c : Nat → Nat) (i : Nat) (w : List Nat) : List Nat := w.filter fun a => c a == i

/-- every one of the colour classes `0 … k-1` is an increasing subsequence -/
def IsIncColouring (c : Nat → Nat) (k : Nat) (w : List Nat) : Prop :=
  ∀ i, i < k → (colourClass c i w).Pairwise (· < ·)

/-- the number of letters that carry one of the colours `0 … k-1` -/
def colouredCount (c : Nat → Nat) (k : Nat) (w : List Nat) : Nat := (w.filter fun a => decide (c a < k)).length

/-- `m` is the largest number of letters of `w` covered by `k` increasing subsequences -/
def IsGreeneInc (k : Nat) (w : List Nat) (m : Nat) : Prop :=
  (∃ c, IsIncColouring c k w ∧ colouredCount c k w = m) ∧
    ∀ c, IsIncColouring c k w → colouredCount c k w ≤ m

theorem IsGreeneInc.unique {k : Nat} {w : List Nat} {a b : Nat} (ha : IsGreeneInc k w a)
    (hb : IsGreeneInc k w b) : a = b := by
  obtain ⟨⟨c, h1, h2⟩, hm⟩ := ha
  obtain ⟨⟨c', k1, k2⟩, km⟩ := hb
  have := hm c' k1
  have := km c h1
  omega

/-! ### the same through families of pairwise disjoint increasing subsequences -/

/-- `F` is a family of pairwise disjoint strictly increasing subsequences of `w` -/
def IsIncFamily (w : List Nat) (F : List (List Nat)) : Prop :=
  (∀ s ∈ F, List.Sublist s w ∧ s.Pairwise (· < ·)) ∧ F.Pairwise (fun s t => ∀ a ∈ s, a ∉ t)

/-- `m` is the largest total length of `k` pairwise disjoint increasing subsequences of `w` -/
def IsGreeneFam (k : Nat) (w : List Nat) (m : Nat) : Prop :=
  (∃ F, F.length = k ∧ IsIncFamily w F ∧ F.flatten.length = m) ∧
    ∀ F, F.length = k → IsIncFamily w F → F.flatten.length ≤ m

end Spec
