import PermutaModel.Model.C15
/-!
# C15 — specification vocabulary: the languages the property talks about

Written as predicates on words by existential splitting; nothing here looks at automata.
-/
namespace Spec.C15
open Model.C15 (Word DIRS)

/-- `A*`: every letter is one of `DIRS` -/
def AStar (w : Word) : Prop := ∀ c ∈ w, c ∈ DIRS

/-- the axis of a direction letter: `U`, `D` are vertical, the others horizontal -/
def vertical (c : Char) : Bool := c == 'U' || c == 'D'

/-- no two consecutive letters lie on the same axis -/
def Alternating (w : Word) : Prop := ∀ u a b v, w = u ++ a :: b :: v → vertical a ≠ vertical b

/-- the pin-sequence language `M`: direction letters, consecutive letters on different axes -/
def InM (w : Word) : Prop := AStar w ∧ Alternating w

/-- `φ(u₁)·A*·φ(u₂)·A*· … ·φ(u_k)·A*` where each `φ(uᵢ)` is a finite set of alternatives -/
def tailLang : List (List Word) → Word → Prop
  | [], w => w = []
  | alts :: rest, w => ∃ v w2 w3, w = v ++ w2 ++ w3 ∧ v ∈ alts ∧ AStar w2 ∧ tailLang rest w3

/-- `A*·φ(u₁)·A*· … ·φ(u_k)·A*` -/
def regexLang (fs : List (List Word)) (w : Word) : Prop :=
  ∃ w0 w1, w = w0 ++ w1 ∧ AStar w0 ∧ tailLang fs w1

end Spec.C15
