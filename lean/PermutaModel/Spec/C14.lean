import PermutaModel.Model.C14
/-!
# C14 — specification vocabulary for pin words (import-free, executable)

Only the *data type* of letters is shared with the model; nothing here looks at the code's
control flow.
-/
namespace Spec.C14
open Model.C14 Model.C14.Letter

/-- two direction letters on one axis (`UU UD DU DD LL LR RL RR`) -/
def sameAxis (a b : Letter) : Bool := (a.isVert && b.isVert) || (a.isHoriz && b.isHoriz)

/-- every letter after the first: a numeral, or a direction that does not follow a direction of
    its own axis; `p` is the previous letter -/
def chainOK : Letter → Word → Bool
  | _, [] => true
  | p, c :: rest => (c.isQuad || (c.isDir && !sameAxis p c)) && chainOK c rest

/-- the language of pin words: over `{1,2,3,4,U,L,D,R}`, first letter a numeral, no factor
    `UU UD DU DD LL LR RL RR` -/
def inLang : Word → Bool
  | [] => true
  | c :: rest => c.isQuad && chainOK c rest

/-- the language `M` of direction words without two consecutive letters on one axis -/
def inM : Word → Bool
  | [] => true
  | c :: rest => c.isDir && chainOK c rest && rest.all isDir

/-- a letter whose pin lies to the right of the origin / above the origin *by its own name* -/
def namesRight : Letter → Bool
  | q1 | q4 | R => true
  | _ => false
def namesUp : Letter → Bool
  | q1 | q2 | U => true
  | _ => false

/-- numeral of a sign pattern (right?, up?) -/
def quadOfSigns : Bool × Bool → Letter
  | (true, true) => q1
  | (false, true) => q2
  | (false, false) => q3
  | (true, false) => q4

/-- sign pattern of the `i`-th pin of a pin word relative to the origin (Lemma 3.10): a numeral
    names it; a vertical direction names the vertical sign and inherits the horizontal sign of the
    previous pin (which that pin's letter names, being a numeral or a horizontal direction) -/
def signs (w : Word) (i : Nat) : Bool × Bool :=
  let c := w.getD i (X ' ')
  let p := w.getD (i - 1) (X ' ')
  if c.isQuad then (namesRight c, namesUp c)
  else if c.isVert then (namesRight p, namesUp c)
  else (namesRight c, namesUp p)

end Spec.C14
