import PermutaModel.Basic
/-! Shared specification vocabulary (import-free, executable). -/

/-- a permutation of `0 … n-1` in one-line notation -/
def IsPerm (p : NSeq) : Prop := p.Nodup ∧ ∀ x ∈ p, x < p.length

instance (p : NSeq) : Decidable (IsPerm p) := by unfold IsPerm; infer_instance

def isPermB (p : NSeq) : Bool := decide (IsPerm p)

/-- strictly increasing list of naturals -/
def StrictInc (c : List Nat) : Prop := c.Pairwise (· < ·)

/-- lexicographic order on index tuples -/
def lexLt : List Nat → List Nat → Bool
  | [], [] => false
  | [], _ :: _ => true
  | _ :: _, [] => false
  | a :: as, b :: bs => a < b || (a == b && lexLt as bs)

/-- `c` (an index tuple read as a function on positions) is an occurrence of `π` in `σ`:
    strictly increasing, in range, of the pattern's length, and order-isomorphic -/
structure IsOcc (π σ : NSeq) (c : List Nat) : Prop where
  len : c.length = π.length
  inc : StrictInc c
  rng : ∀ i ∈ c, i < σ.length
  iso : ∀ a b, a < π.length → b < π.length →
    (π.getD a 0 < π.getD b 0 ↔ σ.getD (c.getD a 0) 0 < σ.getD (c.getD b 0) 0)

/-- `σ` contains the classical pattern `π` -/
def Contains (σ π : NSeq) : Prop := ∃ c, IsOcc π σ c
