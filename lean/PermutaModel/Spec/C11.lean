import PermutaModel.Spec.Basic
/-!
# C11 specification — what each statistic's NAME promises

One definitional line per listing / statistic, written from the mathematical definition (the docstring's
prose, the FindStat entry or paper quoted there), not from the code: filters over index ranges, brute-force
searches over all subsequences / all subsets / all powers, explicit push–pop devices.  Everything is
executable (the driver can run it: ops `spec…`) and shares no structure with `Model/C11.lean`.
`σ⟦i⟧` is the entry at position `i` (0-based, as in the library).
-/

namespace Spec.Stat

local notation:max σ "⟦" i "⟧" => List.getD σ i 0

/-- positions `0 … n-1` -/
def positions (σ : NSeq) : List Nat := List.range σ.length

/-- all pairs of positions `i < j`, lexicographically -/
def pairs (σ : NSeq) : List (Nat × Nat) :=
  (positions σ).flatMap fun i => ((positions σ).filter fun j => i < j).map fun j => (i, j)

/-! ### positional listings -/

def fixedPoints (σ : NSeq) : List Nat := (positions σ).filter fun i => σ⟦i⟧ = i
/-- fixed point that is larger than everything before it and smaller than everything after it -/
def strongFixedPoints (σ : NSeq) : List Nat :=
  (positions σ).filter fun i => σ⟦i⟧ = i ∧ (∀ j ∈ positions σ, j < i → σ⟦j⟧ < σ⟦i⟧) ∧ (∀ j ∈ positions σ, i < j → σ⟦i⟧ < σ⟦j⟧)
def descents (σ : NSeq) : List Nat := (positions σ).filter fun i => i + 1 < σ.length ∧ σ⟦i⟧ > σ⟦i+1⟧
def ascents (σ : NSeq) : List Nat := (positions σ).filter fun i => i + 1 < σ.length ∧ σ⟦i⟧ < σ⟦i+1⟧
/-- descents / ascents of size exactly `k` -/
def descentsOfSize (σ : NSeq) (k : Nat) : List Nat := (positions σ).filter fun i => i + 1 < σ.length ∧ σ⟦i⟧ = σ⟦i+1⟧ + k
def ascentsOfSize (σ : NSeq) (k : Nat) : List Nat := (positions σ).filter fun i => i + 1 < σ.length ∧ σ⟦i⟧ + k = σ⟦i+1⟧
def peaks (σ : NSeq) : List Nat :=
  (positions σ).filter fun i => 0 < i ∧ i + 1 < σ.length ∧ σ⟦i-1⟧ < σ⟦i⟧ ∧ σ⟦i⟧ > σ⟦i+1⟧
def valleys (σ : NSeq) : List Nat :=
  (positions σ).filter fun i => 0 < i ∧ i + 1 < σ.length ∧ σ⟦i-1⟧ > σ⟦i⟧ ∧ σ⟦i⟧ < σ⟦i+1⟧
/-- the values at the peaks -/
def pinnacles (σ : NSeq) : List Nat := (peaks σ).map fun i => σ⟦i⟧
/-- positions where the direction changes = peaks and valleys -/
def bends (σ : NSeq) : List Nat :=
  (positions σ).filter fun i => 0 < i ∧ i + 1 < σ.length ∧
    ((σ⟦i-1⟧ < σ⟦i⟧ ∧ σ⟦i⟧ > σ⟦i+1⟧) ∨ (σ⟦i-1⟧ > σ⟦i⟧ ∧ σ⟦i⟧ < σ⟦i+1⟧))
/-- records -/
def ltrmin (σ : NSeq) : List Nat := (positions σ).filter fun i => ∀ j ∈ positions σ, j < i → σ⟦j⟧ > σ⟦i⟧
def ltrmax (σ : NSeq) : List Nat := (positions σ).filter fun i => ∀ j ∈ positions σ, j < i → σ⟦j⟧ < σ⟦i⟧
def rtlmin (σ : NSeq) : List Nat := (positions σ).filter fun i => ∀ j ∈ positions σ, i < j → σ⟦j⟧ > σ⟦i⟧
def rtlmax (σ : NSeq) : List Nat := (positions σ).filter fun i => ∀ j ∈ positions σ, i < j → σ⟦j⟧ < σ⟦i⟧
def inversions (σ : NSeq) : List (Nat × Nat) := (pairs σ).filter fun x => σ⟦x.1⟧ > σ⟦x.2⟧
def nonInversions (σ : NSeq) : List (Nat × Nat) := (pairs σ).filter fun x => σ⟦x.1⟧ < σ⟦x.2⟧
/-- adjacent positions with adjacent values -/
def bonds (σ : NSeq) : List Nat :=
  (positions σ).filter fun i => i + 1 < σ.length ∧ (σ⟦i+1⟧ = σ⟦i⟧ + 1 ∨ σ⟦i⟧ = σ⟦i+1⟧ + 1)
def incBonds (σ : NSeq) : List Nat := (positions σ).filter fun i => i + 1 < σ.length ∧ σ⟦i+1⟧ = σ⟦i⟧ + 1
def decBonds (σ : NSeq) : List Nat := (positions σ).filter fun i => i + 1 < σ.length ∧ σ⟦i⟧ = σ⟦i+1⟧ + 1
/-- `i < x > σ(x)`, `i > x < σ(x)`, `i < x < σ(x)`, `i > x > σ(x)` with `x = σ(i)` (arXiv:1908.01084) -/
def cyclicPeaks (σ : NSeq) : List Nat := (positions σ).filter fun i => i < σ⟦i⟧ ∧ σ⟦i⟧ > σ⟦σ⟦i⟧⟧
def cyclicValleys (σ : NSeq) : List Nat := (positions σ).filter fun i => i > σ⟦i⟧ ∧ σ⟦i⟧ < σ⟦σ⟦i⟧⟧
def doubleExcedances (σ : NSeq) : List Nat := (positions σ).filter fun i => i < σ⟦i⟧ ∧ σ⟦i⟧ < σ⟦σ⟦i⟧⟧
def doubleDrops (σ : NSeq) : List Nat := (positions σ).filter fun i => i > σ⟦i⟧ ∧ σ⟦i⟧ > σ⟦σ⟦i⟧⟧
/-- the library's docstrings: "both a double ascent and ltrmax" …, where (doctests) a double ascent /
    descent at `i` is an ascent / descent of size two -/
def foremaxima (σ : NSeq) : List Nat := (positions σ).filter fun i => i ∈ ascentsOfSize σ 2 ∧ i ∈ ltrmax σ
def afterminima (σ : NSeq) : List Nat := (positions σ).filter fun i => i ∈ ascentsOfSize σ 2 ∧ i ∈ rtlmin σ
def aftermaxima (σ : NSeq) : List Nat := (positions σ).filter fun i => i ∈ descentsOfSize σ 2 ∧ i ∈ rtlmax σ
def foreminima (σ : NSeq) : List Nat := (positions σ).filter fun i => i ∈ descentsOfSize σ 2 ∧ i ∈ ltrmin σ

/-! ### numbers -/

def majorIndex (σ : NSeq) : Nat := ((descents σ).map fun i => i + 1).sum
/-- Petersen–Tenner depth: `Σ_{σ(i) > i} (σ(i) - i)` -/
def depth (σ : NSeq) : Nat := (((positions σ).filter fun i => σ⟦i⟧ > i).map fun i => σ⟦i⟧ - i).sum
def rankEncoding (σ : NSeq) : List Nat :=
  (positions σ).map fun i => ((positions σ).filter fun j => i < j ∧ σ⟦j⟧ < σ⟦i⟧).length

/-- `σ^k (i)` -/
def iter (σ : NSeq) : Nat → Nat → Nat
  | 0, i => i
  | k + 1, i => σ⟦iter σ k i⟧

def factorial : Nat → Nat
  | 0 => 1
  | n + 1 => (n + 1) * factorial n

/-- `σ^k = id` -/
def powIsId (σ : NSeq) (k : Nat) : Bool := (positions σ).all fun i => iter σ k i == i

/-- least `k > 0` with `σ^k = id` (searched up to `n!`, which is a multiple of the order) -/
def order (σ : NSeq) : Nat := ((List.range' 1 (factorial σ.length)).find? (powIsId σ)).getD 0

/-- number of orbits = number of positions that are the maximum of their orbit -/
def cycleCount (σ : NSeq) : Nat :=
  ((positions σ).filter fun i => ∀ k ∈ positions σ, iter σ k i ≤ i).length

/-- cycles `[m, σ m, σ² m, …]`, each starting at its maximum `m`, ordered by increasing maximum -/
def cycles (σ : NSeq) : List (List Nat) :=
  ((positions σ).filter fun i => ∀ k ∈ positions σ, iter σ k i ≤ i).map fun m =>
    ((List.range (((List.range' 1 σ.length).find? fun k => iter σ k m == m).getD 0)).map fun k => iter σ k m)

def isInvolution (σ : NSeq) : Bool := (positions σ).all fun i => σ⟦σ⟦i⟧⟧ == i

/-- all subsequences -/
def sublists : List Nat → List (List Nat)
  | [] => [[]]
  | x :: t => sublists t ++ (sublists t).map (x :: ·)

def maxNat (l : List Nat) : Nat := l.foldl max 0

/-- maximum length of a strictly increasing / decreasing subsequence -/
def lis (σ : NSeq) : Nat := maxNat (((sublists σ).filter fun s => s.Pairwise (· < ·)).map List.length)
def lds (σ : NSeq) : Nat := maxNat (((sublists σ).filter fun s => s.Pairwise (· > ·)).map List.length)

/-- the consecutive segment starting at `i` of length `L` is ascending / descending -/
def ascendingRun (σ : NSeq) (i L : Nat) : Bool :=
  decide (i + L ≤ σ.length) && (List.range (L - 1)).all fun d => σ⟦i+d⟧ < σ⟦i+d+1⟧
def descendingRun (σ : NSeq) (i L : Nat) : Bool :=
  decide (i + L ≤ σ.length) && (List.range (L - 1)).all fun d => σ⟦i+d⟧ > σ⟦i+d+1⟧
/-- length of the longest run, and the positions where a run of that length starts -/
def longestRun (run : NSeq → Nat → Nat → Bool) (σ : NSeq) : Nat × List Nat :=
  let L := maxNat ((List.range (σ.length + 1)).filter fun L => (positions σ).any fun i => 1 ≤ L ∧ run σ i L)
  (L, (positions σ).filter fun i => 1 ≤ L ∧ run σ i L)

/-- largest `k` such that `n-1, n-2, …, n-k` appear in this order from left to right -/
def maximalDecreasingRun (σ : NSeq) : Nat :=
  maxNat ((List.range (σ.length + 1)).filter fun k =>
    (List.range (k - 1)).all fun d => σ.idxOf (σ.length - 1 - d) < σ.idxOf (σ.length - 2 - d))

/-- FindStat St000133, read as a bounce path: `cover k` = the least `m` such that the first `m` entries
    contain all of `0 … k`; `b₀ = cover 0`, `b_{j+1} = cover b_j` while `b_j < n`; bounce = `Σ (n - b_j)` -/
def cover (σ : NSeq) (k : Nat) : Nat :=
  ((List.range (σ.length + 1)).find? fun m =>
    (List.range (k + 1)).all fun v => decide (v ≥ σ.length) || (σ.take m).contains v).getD σ.length
def bouncePath (σ : NSeq) : Nat → Nat → List Nat
  | 0, _ => []
  | f + 1, b => if b < σ.length then b :: bouncePath σ f (cover σ b) else []
def bounces (σ : NSeq) : Nat :=
  if σ.length = 0 then 0 else ((bouncePath σ σ.length (cover σ 0)).map fun b => σ.length - b).sum

/-- FindStat St000141: a drop is a position with `σ(i) < i`, its size is `i - σ(i)`; maximum, `0` without drops -/
def maxDropSize (σ : NSeq) : Nat := maxNat ((positions σ).map fun i => i - σ⟦i⟧)

def isPrime (n : Nat) : Bool := decide (2 ≤ n) && (List.range n).all fun d => decide (d < 2) || n % d != 0
/-- FindStat St001285: primes among the column sums of the two-line notation (1-based: `(i+1) + (σ(i)+1)`) -/
def columnSumPrimes (σ : NSeq) : Nat := ((positions σ).filter fun i => isPrime ((i + 1) + (σ⟦i⟧ + 1))).length

/-- FindStat St001469: `δ(S) = #{m ∈ S | m+1 ∉ S}`, holeyness `= max_S (δ(σ(S)) - δ(S))` -/
def delta (s : List Nat) : Nat := (s.filter fun m => !(s.contains (m + 1))).length
def maxInt (l : List Int) : Int := match l with | [] => 0 | x :: t => t.foldl max x
def holeyness (σ : NSeq) : Int :=
  maxInt ((sublists (positions σ)).map fun s => (delta (s.map fun i => σ⟦i⟧) : Int) - (delta s : Int))

/-- one pass through a stack (top of the stack first): before `x` is pushed every smaller entry is popped -/
def stackPass : List Nat → List Nat → List Nat → List Nat
  | [], st, out => out ++ st
  | x :: t, st, out => stackPass t (x :: st.dropWhile (· < x)) (out ++ st.takeWhile (· < x))
/-- one pass through a pop-stack: `x` is pushed if the stack is empty or `x` is smaller than the top,
    otherwise the whole stack is popped first -/
def popStackPass : List Nat → List Nat → List Nat → List Nat
  | [], st, out => out ++ st
  | x :: t, [], out => popStackPass t [x] out
  | x :: t, top :: st, out => if x < top then popStackPass t (x :: top :: st) out else popStackPass t [x] (out ++ top :: st)

def iterPass (pass : List Nat → List Nat) : Nat → List Nat → List Nat
  | 0, l => l
  | k + 1, l => iterPass pass k (pass l)
/-- least number of passes after which the permutation is sorted (at most `n` are ever needed) -/
def passesNeeded (pass : List Nat → List Nat) (σ : NSeq) : Nat :=
  ((List.range (σ.length + 1)).find? fun k => iterPass pass k σ == List.range σ.length).getD 0
def stackSortsNeeded (σ : NSeq) : Nat := passesNeeded (fun l => stackPass l [] []) σ
def popStackSortsNeeded (σ : NSeq) : Nat := passesNeeded (fun l => popStackPass l [] []) σ

/-- layers: positions (within the remainder) of the right-to-left maxima and left-to-right minima of the
    remainder; the next layer is defined in the same way for the sequence with the layer removed -/
def layers : Nat → List Nat → List (List Nat)
  | 0, _ => []
  | f + 1, s =>
    if s.length = 0 then []
    else
      let L := (positions s).filter fun i => i ∈ rtlmax s ∨ i ∈ ltrmin s
      L :: layers f (((positions s).filter fun i => i ∉ L).map fun i => s⟦i⟧)
def rtlmaxLtrminLayers (σ : NSeq) : List (List Nat) := layers σ.length σ

/-! ### the 32 named statistics -/

/-- what the NAME of a predefined statistic promises -/
def byName : String → Option (NSeq → Int)
  | "Number of inversions" => some fun σ => (inversions σ).length
  | "Number of non-inversions" => some fun σ => (nonInversions σ).length
  | "Major index" => some fun σ => majorIndex σ
  | "Number of descents" => some fun σ => (descents σ).length
  | "Number of ascents" => some fun σ => (ascents σ).length
  | "Number of peaks" => some fun σ => (peaks σ).length
  | "Number of valleys" => some fun σ => (valleys σ).length
  | "Number of cycles" => some fun σ => cycleCount σ
  | "Number of left-to-right minimas" => some fun σ => (ltrmin σ).length
  | "Number of left-to-right maximas" => some fun σ => (ltrmax σ).length
  | "Number of right-to-left minimas" => some fun σ => (rtlmin σ).length
  | "Number of right-to-left maximas" => some fun σ => (rtlmax σ).length
  | "Number of fixed points" => some fun σ => (fixedPoints σ).length
  | "Order" => some fun σ => order σ
  | "Longest increasing subsequence" => some fun σ => lis σ
  | "Longest decreasing subsequence" => some fun σ => lds σ
  | "Depth" => some fun σ => depth σ
  | "Number of bounces" => some fun σ => bounces σ
  | "Maximum drop size" => some fun σ => maxDropSize σ
  | "Number of primes in the column sums" => some fun σ => columnSumPrimes σ
  | "Holeyness of a permutation" => some fun σ => holeyness σ
  | "Number of stack-sorts needed" => some fun σ => stackSortsNeeded σ
  | "Number of pop-stack-sorts needed" => some fun σ => popStackSortsNeeded σ
  | "Number of pinnacles" => some fun σ => (pinnacles σ).length
  | "Number of cyclic peaks" => some fun σ => (cyclicPeaks σ).length
  | "Number of cyclic valleys" => some fun σ => (cyclicValleys σ).length
  | "Number of double excedance" => some fun σ => (doubleExcedances σ).length
  | "Number of double drops" => some fun σ => (doubleDrops σ).length
  | "Number of foremaxima" => some fun σ => (foremaxima σ).length
  | "Number of afterminima" => some fun σ => (afterminima σ).length
  | "Number of aftermaxima" => some fun σ => (aftermaxima σ).length
  | "Number of foreminima" => some fun σ => (foreminima σ).length
  | _ => none

/-- the Perm method that computes what the name promises (canonical binding).  Each line is backed by a
    theorem `model = spec` of `Props/C11.lean` (`C11.provedNames`) or, where that is still open, by this run's
    three-way comparison implementation / Python oracle / this Lean specification (see the evidence's `partial`).
    "Maximum drop size" ↦ `max_drop_size` is the intended binding; that method's VALUE differs from the definition
    at the pinned commit (known finding), which is a statement about the method, not about the table. -/
def canonicalFunc : String → Option String
  | "Number of inversions" => some "count_inversions"
  | "Number of non-inversions" => some "count_non_inversions"
  | "Major index" => some "major_index"
  | "Number of descents" => some "count_descents"
  | "Number of ascents" => some "count_ascents"
  | "Number of peaks" => some "count_peaks"
  | "Number of valleys" => some "count_valleys"
  | "Number of cycles" => some "count_cycles"
  | "Number of left-to-right minimas" => some "count_ltrmin"
  | "Number of left-to-right maximas" => some "count_ltrmax"
  | "Number of right-to-left minimas" => some "count_rtlmin"
  | "Number of right-to-left maximas" => some "count_rtlmax"
  | "Number of fixed points" => some "count_fixed_points"
  | "Order" => some "order"
  | "Longest increasing subsequence" => some "length_of_longest_increasing_subsequence"
  | "Longest decreasing subsequence" => some "length_of_longest_decreasing_subsequence"
  | "Depth" => some "depth"
  | "Number of bounces" => some "count_bounces"
  | "Maximum drop size" => some "max_drop_size"
  | "Number of primes in the column sums" => some "count_column_sum_primes"
  | "Holeyness of a permutation" => some "holeyness"
  | "Number of stack-sorts needed" => some "count_stack_sorts"
  | "Number of pop-stack-sorts needed" => some "count_pop_stack_sorts"
  | "Number of pinnacles" => some "count_peaks"
  | "Number of cyclic peaks" => some "count_cyclic_peaks"
  | "Number of cyclic valleys" => some "count_cyclic_valleys"
  | "Number of double excedance" => some "count_double_excedance"
  | "Number of double drops" => some "count_double_drops"
  | "Number of foremaxima" => some "count_foremaxima"
  | "Number of afterminima" => some "count_afterminima"
  | "Number of aftermaxima" => some "count_aftermaxima"
  | "Number of foreminima" => some "count_foreminima"
  | _ => none

/-! ### gaps -/

/-- taxicab (L¹) distance between the points `(i, σ⟦i⟧)` and `(j, σ⟦j⟧)` of the diagram -/
def taxicab (σ : NSeq) (i j : Nat) : Nat :=
  Int.natAbs ((i : Int) - (j : Int)) + Int.natAbs (((σ⟦i⟧ : Nat) : Int) - ((σ⟦j⟧ : Nat) : Int))

end Spec.Stat
