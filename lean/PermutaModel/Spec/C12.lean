import PermutaModel.Spec.Basic
import PermutaModel.Model.C01
/-! C12 specification side: the sorting *devices* as explicit machines on lists of naturals, and the
    families by their textbook definitions.  Nothing here shares structure with the code
    (no split at the maximum, no deque, no pattern tables).  Import-free and executable. -/

namespace Spec

/-! ## the stack: read the input left to right; before pushing the next entry pop (to the output)
    while the top of the stack is smaller than it; at the end flush the stack -/

/-- pop while `top < x`: (popped entries in output order, remaining stack); stack top first -/
def popWhileLt (x : Nat) : List Nat → List Nat × List Nat
  | [] => ([], [])
  | t :: st => if t < x then (t :: (popWhileLt x st).1, (popWhileLt x st).2) else ([], t :: st)

/-- run the stack on the remaining input from stack content `st` (top first): the output -/
def stackRun : List Nat → List Nat → List Nat
  | [], st => st
  | x :: xs, st => (popWhileLt x st).1 ++ stackRun xs (x :: (popWhileLt x st).2)

/-- one pass through a stack -/
def stackPass (l : List Nat) : List Nat := stackRun l []

/-! ## the pop-stack: as the stack, but when the top is smaller than the next entry the WHOLE
    stack is popped -/

def popRun : List Nat → List Nat → List Nat
  | [], st => st
  | x :: xs, [] => popRun xs [x]
  | x :: xs, t :: st => if t < x then (t :: st) ++ popRun xs [x] else popRun xs (x :: t :: st)

def popStackPass (l : List Nat) : List Nat := popRun l []

/-! ## bubble: one left-to-right sweep of adjacent transpositions; `c` is the entry currently
    being carried to the right -/

def bubbleCarry (c : Nat) : List Nat → List Nat
  | [] => [c]
  | y :: t => if y < c then y :: bubbleCarry c t else c :: bubbleCarry y t

def bubblePass : List Nat → List Nat
  | [] => []
  | x :: t => bubbleCarry x t

/-! ## quicksort operator of Claesson–Úlfarsson: an entry is a *strong fixed point* of a word when
    everything to its left is smaller and everything to its right is larger; if there is one, split
    at the rightmost and recurse on both sides, otherwise partition around the first entry -/

def isStrongFix (l : List Nat) (i : Nat) : Bool :=
  (l.take i).all (· < l.getD i 0) && (l.drop (i + 1)).all (l.getD i 0 < ·)

/-- rightmost strong fixed point (as a position), if any -/
def lastStrongFix (l : List Nat) : Option Nat :=
  (List.range l.length).reverse.find? (isStrongFix l)

/-- fuel-bounded recursion (fuel = length is enough: both sides are shorter) -/
def quickPassFuel : Nat → List Nat → List Nat
  | 0, l => l
  | fuel + 1, l =>
    match l with
    | [] => []
    | f :: _ =>
      match lastStrongFix l with
      | some m => quickPassFuel fuel (l.take m) ++ [l.getD m 0] ++ quickPassFuel fuel (l.drop (m + 1))
      | none => l.filter (· < f) ++ [f] ++ l.filter (f < ·)

def quickPass (l : List Nat) : List Nat := quickPassFuel l.length l

/-! ## iteration and counting -/

def passes (f : List Nat → List Nat) : Nat → List Nat → List Nat
  | 0, l => l
  | k + 1, l => passes f k (f l)

/-! ## families -/

/-- rotation `i ↦ (a + i) mod n` of the `n`-gon -/
def ngonRot (n a : Nat) : NSeq := (List.range n).map fun i => (a + i) % n
/-- reflection `i ↦ (a - i) mod n` of the `n`-gon -/
def ngonRefl (n a : Nat) : NSeq := (List.range n).map fun i => (a + n - i) % n

/-- the `2n` symmetries of the regular `n`-gon, `n ≥ 3` -/
def IsDihedral (σ : NSeq) : Prop :=
  3 ≤ σ.length ∧ ∃ a, a < σ.length ∧ (σ = ngonRot σ.length a ∨ σ = ngonRefl σ.length a)

instance (σ : NSeq) : Decidable (IsDihedral σ) := by
  unfold IsDihedral
  exact inferInstanceAs (Decidable (_ ∧ ∃ a, a < σ.length ∧ _))

/-- number of inversions: pairs of entries, taken in position order, whose first is larger than
    the second (`Spec.subLen 2 σ` lists all such pairs of entries) -/
def inversions (σ : NSeq) : Nat :=
  ((Spec.subLen 2 σ).filter fun p => p.getD 1 0 < p.getD 0 0).length

/-- even permutations -/
def IsEven (σ : NSeq) : Prop := inversions σ % 2 = 0

instance (σ : NSeq) : Decidable (IsEven σ) := by unfold IsEven; infer_instance

end Spec
