import PermutaModel.Spec.Basic
/-! C05 specification vocabulary: avoidance classes of pattern lists, antichains. -/
namespace Spec.C05

/-- `σ` avoids every pattern of `B` -/
def AvoidsAll (B : List NSeq) (σ : NSeq) : Prop := ∀ p ∈ B, ¬ Contains σ p

/-- two pattern lists define the same avoidance class -/
def SameClass (B B' : List NSeq) : Prop := ∀ σ, IsPerm σ → (AvoidsAll B σ ↔ AvoidsAll B' σ)

/-- no element contains another one (in particular no repetition of a pattern that contains itself) -/
def Antichain (B : List NSeq) : Prop := B.Pairwise fun p q => ¬ Contains p q ∧ ¬ Contains q p

/-- every element of `S` contains an element of `B` -/
def Covers (B S : List NSeq) : Prop := ∀ x ∈ S, ∃ b ∈ B, Contains x b

end Spec.C05
