import PermutaModel.Model.C19
import PermutaModel.Spec.Basic
/-! C19 specification vocabulary. -/
open Model.C19

namespace Spec.C19

/-- what a core strategy asks of one symmetric image `b` of the basis: every needed pattern is excluded
    from `Av(b)` (it contains an element of `b`), and every other element passes the strategy's shape test -/
def Holds (s : Strat) (b : List NSeq) : Prop :=
  (∀ p ∈ s.needed, ∃ q ∈ b, Contains p q) ∧ ∀ q ∈ b, q ∉ s.needed → s.valid q = .ok true


end Spec.C19
