import PermutaModel.Spec.Mesh
/-! C06 specification: which cells the sub-pattern induced on the points `c` of a mesh pattern `μ`
    shades (import-free). -/

namespace Spec

/-- cell `(x, y)` of the grid through the chosen points `c` of `μ` is shaded in the induced
    sub-pattern: it is a cell of that grid, every cell `(a, b)` of `μ` lying in its region (column `a`
    has `x` chosen points to its left, row `b` has `y` chosen points below) is shaded in `μ`, and no
    point of `μ` other than the chosen ones lies in it -/
structure SubShaded (μ : Mesh) (c : List Nat) (x y : Nat) : Prop where
  hx : x ≤ c.length
  hy : y ≤ c.length
  shaded : ∀ a b, a ≤ μ.pattern.length → b ≤ μ.pattern.length →
    countLt c a = x → countLt (pick μ.pattern c) b = y → (a, b) ∈ μ.shading
  pointfree : ∀ idx, idx < μ.pattern.length → idx ∉ c → cellOf μ.pattern c idx ≠ (x, y)

/-- the points of `σ` chosen by composing an occurrence `d` of the larger pattern with an
    occurrence `c` inside the larger pattern -/
def compose (d c : List Nat) : List Nat := c.map fun j => d.getD j 0

end Spec
