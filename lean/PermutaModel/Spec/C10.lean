import PermutaModel.Spec.Basic
/-! Specification vocabulary of C10 (import-free): intervals, simplicity, decomposability. -/

namespace Spec.C10

/-- the entries at the `l` consecutive positions `i, …, i+l-1` -/
def window (p : NSeq) (i l : Nat) : NSeq := (p.drop i).take l

/-- the positions `i … i+l-1` exist and their values form a set of `l` consecutive integers -/
def IsInterval (p : NSeq) (i l : Nat) : Prop :=
  i + l ≤ p.length ∧ ∃ m, ∀ v, v ∈ window p i l ↔ m ≤ v ∧ v < m + l

/-- simple: no interval of length `2 ≤ l < n` -/
def IsSimple (p : NSeq) : Prop := ∀ i l, 2 ≤ l → l < p.length → ¬ IsInterval p i l

/-- `c` cuts `p` into a lower-left and an upper-right part (every entry before `c` is smaller than
    every entry from `c` on) -/
def SumCut (p : NSeq) (c : Nat) : Prop := ∀ x ∈ p.take c, ∀ y ∈ p.drop c, x < y

/-- `c` cuts `p` into an upper-left and a lower-right part -/
def SkewCut (p : NSeq) (c : Nat) : Prop := ∀ x ∈ p.take c, ∀ y ∈ p.drop c, y < x

/-- expressible as the direct sum of two non-empty permutations -/
def SumDecomposable (p : NSeq) : Prop := ∃ c, 0 < c ∧ c < p.length ∧ SumCut p c

/-- expressible as the skew sum of two non-empty permutations -/
def SkewDecomposable (p : NSeq) : Prop := ∃ c, 0 < c ∧ c < p.length ∧ SkewCut p c

/-! ### monotone runs (the `kind` is the comparator of the three `monotone_block_decomposition*`) -/

/-- adjacency test of a run: values differ by one in an allowed direction -/
def stepOk (asc desc : Bool) (a b : Nat) : Prop := (asc = true ∧ b = a + 1) ∨ (desc = true ∧ a = b + 1)

/-- positions `s … e` form a run: adjacent values adjacent, with one common step -/
def IsRun (asc desc : Bool) (p : NSeq) (s e : Nat) : Prop :=
  s ≤ e ∧ e < p.length ∧ ∃ d : Int, ∀ j, s ≤ j → j < e →
    stepOk asc desc (p.getD j 0) (p.getD (j + 1) 0) ∧ (p.getD (j + 1) 0 : Int) - (p.getD j 0 : Int) = d

/-- the run `s … e` could be extended by position `e + 1` -/
def Extends (asc desc : Bool) (p : NSeq) (s e : Nat) : Prop :=
  stepOk asc desc (p.getD e 0) (p.getD (e + 1) 0) ∧
    (s = e ∨ (p.getD (e + 1) 0 : Int) - (p.getD e 0 : Int) = (p.getD e 0 : Int) - (p.getD (e - 1) 0 : Int))

/-- `l` splits the positions `s … n-1` into consecutive runs, none of which can be extended -/
inductive RunPartition (asc desc : Bool) (p : NSeq) : Nat → List (Nat × Nat) → Prop where
  | last {s : Nat} : IsRun asc desc p s (p.length - 1) → RunPartition asc desc p s [(s, p.length - 1)]
  | cons {s e : Nat} {rest : List (Nat × Nat)} : IsRun asc desc p s e → e + 1 < p.length →
      ¬ Extends asc desc p s e → RunPartition asc desc p (e + 1) rest →
      RunPartition asc desc p s ((s, e) :: rest)

end Spec.C10
