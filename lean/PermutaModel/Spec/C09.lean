import PermutaModel.Spec.Basic
/-! Specification vocabulary of C09 (import-free). -/

namespace Spec

/-- `r` is order-isomorphic to the sequence `l` *with ties broken left to right*: same length, and
    position `i` gets a smaller value than position `j` exactly when `l[i] < l[j]`, or `l[i] = l[j]`
    and `i` is to the left of `j` -/
def StdIso (l r : List Nat) : Prop :=
  r.length = l.length ∧ ∀ i j, i < l.length → j < l.length →
    ((l.getD i 0 < l.getD j 0 ∨ (l.getD i 0 = l.getD j 0 ∧ i < j)) ↔ r.getD i 0 < r.getD j 0)

end Spec
