import PermutaModel.Model.C20

/-!
# C20 specification: which file contents are BiSC data files, and what they denote

Written without reference to how `from_json` is coded: a JSON value denotes a BiSC dictionary iff it is
an object whose keys are integer strings and whose values are arrays of arrays of naturals; a file
denotes a dictionary iff its whole content is one such JSON text (JSON white space allowed around
tokens, nothing else).  Repeated keys follow `dict` semantics (the last value wins), which is what
`json` itself does.
-/
namespace Spec.C20
open Model.C20

def allSome {α : Type} : List (Option α) → Option (List α)
  | [] => some []
  | none :: _ => none
  | some a :: r =>
    match allSome r with
    | some l => some (a :: l)
    | none => none

/-- an array of naturals -/
def asNats : J → Option (List Nat)
  | .arr l => if l.all J.isNum then some (l.map J.numVal) else none
  | _ => none

/-- an array of arrays of naturals -/
def asPerms : J → Option (List (List Nat))
  | .arr l => allSome (l.map asNats)
  | _ => none

def decodeMember (m : Str × J) : Option (Nat × List (List Nat)) :=
  match asPerms m.2, keyToNat m.1 with
  | some v, some k => some (k, v)
  | _, _ => none

/-- the dictionary a JSON value denotes, if it is of the BiSC shape -/
def decode : J → Option Dataset
  | .obj l =>
    match allSome ((pyDict l).map decodeMember) with
    | some d => some (pyDict d)
    | none => none
  | _ => none

/-- the dictionary the file `<path>.json` denotes: present, whole content one JSON text, BiSC shape -/
def fileValue (fs : FS) (path : Str) : Option Dataset :=
  match fsGet fs (path ++ dotJson) with
  | none => none
  | some content =>
    match loads content with
    | none => none
    | some j => decode j

end Spec.C20
