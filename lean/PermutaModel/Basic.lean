/-! Shared basics: sequence type and the driver's line-protocol encoders/decoders.
    Import-free (core Lean only) so that the compiled driver can link. -/
abbrev NSeq := List Nat

namespace Proto

def parseSeq (s : String) : List Nat :=
  if s == "_" then [] else (s.splitOn ",").filterMap String.toNat?

def parseSeqs (s : String) : List (List Nat) :=
  if s == "-" then [] else (s.splitOn ";").map parseSeq

def parseInt (s : String) : Int := s.toInt?.getD 0
def parseNat (s : String) : Nat := s.toNat?.getD 0

def showSeq (l : List Nat) : String :=
  if l.isEmpty then "_" else ",".intercalate (l.map toString)

def showSeqs (l : List (List Nat)) : String :=
  if l.isEmpty then "-" else ";".intercalate (l.map showSeq)

def showIntSeq (l : List Int) : String :=
  if l.isEmpty then "_" else ",".intercalate (l.map toString)

def showBool (b : Bool) : String := if b then "T" else "F"

/-- cells `x.y` separated by `,` ; `_` for none -/
def parseCells (s : String) : List (Nat × Nat) :=
  if s == "_" then [] else
    (s.splitOn ",").filterMap fun t =>
      match t.splitOn "." with
      | [a, b] => match a.toNat?, b.toNat? with
        | some x, some y => some (x, y)
        | _, _ => none
      | _ => none

def showCells (l : List (Nat × Nat)) : String :=
  if l.isEmpty then "_" else ",".intercalate (l.map fun c => s!"{c.1}.{c.2}")

/-- error kinds of the model, compared with Python exception classes by kind only -/
inductive Err where
  | assertion | valueError | typeError | keyError | indexError | notImplemented
deriving DecidableEq, Repr

def Err.show : Err → String
  | .assertion => "ERR:AssertionError"
  | .valueError => "ERR:ValueError"
  | .typeError => "ERR:TypeError"
  | .keyError => "ERR:KeyError"
  | .indexError => "ERR:IndexError"
  | .notImplemented => "ERR:NotImplementedError"

def showExcept {α} (f : α → String) : Except Err α → String
  | .ok a => f a
  | .error e => e.show

end Proto
