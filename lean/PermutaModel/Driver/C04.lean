import PermutaModel.Model.C04
open Proto

namespace Driver.C04
open Model

/-- a symmetry token: `rev comp inv rc fa` or `r<int>` (rotate by that count) -/
def permSym (g : String) : Option (NSeq → NSeq) :=
  match g with
  | "rev" => some reverse
  | "comp" => some complement
  | "inv" => some inverse
  | "rc" => some reverseComplement
  | "fa" => some flipAntidiagonal
  | _ => if g.startsWith "r" then (g.drop 1).toString.toInt?.map fun t => fun p => rotate p t else none

/-- the symmetries `MeshPatt` offers -/
def meshSym (g : String) : Option (Mesh → Mesh) :=
  match g with
  | "rev" => some meshReverse
  | "comp" => some meshComplement
  | "inv" => some meshInverse
  | _ => if g.startsWith "r" then (g.drop 1).toString.toInt?.map fun t => fun m => meshRotate m t else none

def showTuples (l : List (List NSeq)) : String := "|".intercalate (l.map showSeqs)
def showMeshes (l : List Mesh) : String :=
  if l.isEmpty then "-" else ";".intercalate (l.map showMesh)

/-- build a `MeshPatt` (constructor assert) and apply `f` -/
def withMesh (p c : String) (f : Mesh → String) : String :=
  let m := parseMesh p c
  if meshValid m then f m else Err.assertion.show

def flags (l : List Bool) : String := String.join (l.map showBool)

def handle (op : String) (a : List String) : Option String :=
  match op, a with
  -- permutations
  | "p.inv", [p] => some (showExcept showSeq (inverseW (parseSeq p)))
  | "p.fd", [p] => some (showExcept showSeq (inverseW (parseSeq p)))
  | "p.rev", [p] => some (showSeq (reverse (parseSeq p)))
  | "p.fv", [p] => some (showSeq (reverse (parseSeq p)))
  | "p.comp", [p] => some (showSeq (complement (parseSeq p)))
  | "p.fh", [p] => some (showSeq (complement (parseSeq p)))
  | "p.rc", [p] => some (showSeq (reverseComplement (parseSeq p)))
  | "p.fa", [p] => some (showExcept showSeq (flipAntidiagonalW (parseSeq p)))
  | "p.rot", [p, t] =>
      some (match t.toInt? with
        | some t => showExcept showSeq (rotateW (parseSeq p) t)
        | none => Err.typeError.show)
  | "p.syms", [p] => some (showSeqs (allSyms (parseSeq p)))
  -- group relations evaluated as a row of flags
  | "rel.p", [p, s, t] =>
      let p := parseSeq p; let s := parseInt s; let t := parseInt t
      some (flags [inverse (inverse p) == p, reverse (reverse p) == p, complement (complement p) == p,
        reverse (complement p) == rotate p 2, complement (reverse p) == rotate p 2,
        rotate p (s + t) == rotate (rotate p t) s, rotate p 4 == p,
        flipAntidiagonal p == rotate (inverse p) 2, inverse (rotate p 1) == rotate (inverse p) 3,
        rotate p (-1) == rotate p 3])
  | "rel.m", [p, c, s, t] =>
      some (withMesh p c fun m =>
        let s := parseInt s; let t := parseInt t
        let e := fun (x y : Mesh) => meshCanon x == meshCanon y
        flags [e (meshInverse (meshInverse m)) m, e (meshReverse (meshReverse m)) m,
          e (meshComplement (meshComplement m)) m,
          e (meshReverse (meshComplement m)) (meshRotate m 2), e (meshComplement (meshReverse m)) (meshRotate m 2),
          e (meshRotate m (s + t)) (meshRotate (meshRotate m t) s), e (meshRotate m 4) m,
          e (meshRotate m 1) (meshComplement (meshInverse m)),
          e (meshInverse (meshRotate m 1)) (meshRotate (meshInverse m) 3),
          e (meshRotate m (-1)) (meshRotate m 3)])
  -- meshes
  | "m.rev", [p, c] => some (withMesh p c fun m => showMesh (meshCanon (meshReverse m)))
  | "m.fv", [p, c] => some (withMesh p c fun m => showMesh (meshCanon (meshReverse m)))
  | "m.comp", [p, c] => some (withMesh p c fun m => showMesh (meshCanon (meshComplement m)))
  | "m.fh", [p, c] => some (withMesh p c fun m => showMesh (meshCanon (meshComplement m)))
  | "m.inv", [p, c] => some (withMesh p c fun m => showMesh (meshCanon (meshInverse m)))
  | "m.fd", [p, c] => some (withMesh p c fun m => showMesh (meshCanon (meshInverse m)))
  | "m.rot", [p, c, t] =>
      some (withMesh p c fun m => match t.toInt? with
        | some t => showMesh (meshCanon (meshRotate m t))
        | none => Err.typeError.show)
  | "m.syms", [p, c] => some (withMesh p c fun m => showMeshes (meshAllSyms m))
  -- containment equivariance: the image of the permutation contains the image of the pattern
  | "eq.cl", [g, s, p] =>
      (permSym g).map fun f => showBool (containsOne (f (parseSeq s)) (f (parseSeq p)))
  | "eq.mesh", [g, s, p, c] =>
      match permSym g, meshSym g with
      | some f, some fm => some (withMesh p c fun m => showBool (containsMesh (f (parseSeq s)) (fm m)))
      | _, _ => none
  -- sets
  | "s.rot90", [s] => some (showSeqs (rotate90Set (parseSeqs s)))
  | "s.rot180", [s] => some (showSeqs (rotate180Set (parseSeqs s)))
  | "s.rot270", [s] => some (showSeqs (rotate270Set (parseSeqs s)))
  | "s.inv", [s] => some (showSeqs (inverseSet (parseSeqs s)))
  | "s.rev", [s] => some (showSeqs (reverseSet (parseSeqs s)))
  | "s.comp", [s] => some (showSeqs (complementSet (parseSeqs s)))
  | "s.anti", [s] => some (showSeqs (antidiagonalSet (parseSeqs s)))
  | "s.all", [s] => some (showTuples (allSymmetrySets (parseSeqs s)))
  | "s.lexmin", [s] => some (showSeqs (lexMin (parseSeqs s)))
  | "cli.lexmin", [s] => some ("[" ++ cliLexmin s ++ "]")
  | "cli.lexmin", [] => some ("[" ++ cliLexmin "" ++ "]")
  | _, _ => none

end Driver.C04
