import PermutaModel.Driver.C01
import PermutaModel.Driver.C02

namespace Driver
def handlers : List (String → List String → Option String) :=
  [Driver.C01.handle, Driver.C02.handle]

def dispatch (op : String) (args : List String) : Option String :=
  handlers.findSome? fun h => h op args
end Driver
