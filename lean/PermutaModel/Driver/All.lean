import PermutaModel.Driver.C01
import PermutaModel.Driver.C02
import PermutaModel.Driver.C06
import PermutaModel.Driver.C03
import PermutaModel.Driver.C07
import PermutaModel.Driver.C10
import PermutaModel.Driver.C16
import PermutaModel.Driver.C15
import PermutaModel.Driver.C20
import PermutaModel.Driver.C19
import PermutaModel.Driver.C13
import PermutaModel.Driver.C11
import PermutaModel.Driver.C14
import PermutaModel.Driver.C05
import PermutaModel.Driver.C08
import PermutaModel.Driver.C17
import PermutaModel.Driver.C17Src
import PermutaModel.Driver.C18
import PermutaModel.Driver.C12
import PermutaModel.Driver.C09
import PermutaModel.Driver.C04

namespace Driver
/-- handlers by property id: a line `Cxx op args…` is dispatched to that property's handler only -/
def handlers : List (String × (String → List String → Option String)) :=
  [("C01", Driver.C01.handle), ("C02", Driver.C02.handle), ("C06", Driver.C06.handle), ("C03", Driver.C03.handle), ("C07", Driver.C07.handle), ("C10", Driver.C10.handle), ("C16", Driver.C16.handle), ("C15", Driver.C15.handle), ("C20", Driver.C20.handle), ("C19", Driver.C19.handle), ("C13", Driver.C13.handle), ("C11", Driver.C11.handle), ("C14", Driver.C14.handle), ("C05", Driver.C05.handle), ("C08", Driver.C08.handle), ("C17", fun op a => (Driver.C17.handle op a).orElse fun _ => Driver.C17Src.handle op a), ("C18", Driver.C18.handle), ("C12", Driver.C12.handle), ("C09", Driver.C09.handle), ("C04", Driver.C04.handle)]

def dispatch (prop op : String) (args : List String) : Option String :=
  match handlers.find? (·.1 == prop) with
  | some (_, h) => h op args
  | none => none
end Driver
