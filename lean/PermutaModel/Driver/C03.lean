import PermutaModel.Model.C03
import PermutaModel.Spec.Mesh
open Proto

namespace Driver.C03

def parseInts (s : String) : List Int :=
  if s == "_" then [] else (s.splitOn ",").filterMap String.toInt?

def cellLe (a b : Cell) : Bool := a.1 < b.1 || (a.1 == b.1 && a.2 ≤ b.2)

def showShading (m : Mesh) : String := showCells (m.shading.mergeSort cellLe)

/-- mixed argument lists: `;`-separated items `c:<perm>`, `m:<perm>/<cells>`, `b:<perm>/<I>/<V>`,
    `v:<perm>/<I>`, `k:<perm>/<V>`, `x` (not a pattern); `-` for no item -/
def parseItem (t : String) : Option Model.Item :=
  match t.splitOn ":" with
  | ["x"] => some .bad
  | ["c", p] => some (.perm (parseSeq p))
  | ["m", r] => match r.splitOn "/" with
    | [p, c] => match Model.mkMesh (parseSeq p) (parseCells c) with
      | .ok m => some (.mesh m) | .error _ => none
    | _ => none
  | ["b", r] => match r.splitOn "/" with
    | [p, i, v] => match Model.bivincular (parseSeq p) (parseInts i) (parseInts v) with
      | .ok m => some (.mesh m) | .error _ => none
    | _ => none
  | ["v", r] => match r.splitOn "/" with
    | [p, i] => match Model.vincular (parseSeq p) (parseInts i) with
      | .ok m => some (.mesh m) | .error _ => none
    | _ => none
  | ["k", r] => match r.splitOn "/" with
    | [p, v] => match Model.covincular (parseSeq p) (parseInts v) with
      | .ok m => some (.mesh m) | .error _ => none
    | _ => none
  | _ => none

def parseItems (s : String) : Option (List Model.Item) :=
  if s == "-" then some [] else (s.splitOn ";").mapM parseItem

def withMesh (e : Except Err Mesh) (f : Mesh → String) : String :=
  match e with
  | .ok m => f m
  | .error x => x.show

def handle (op : String) (a : List String) : Option String :=
  match op, a with
  | "mocc", [p, c, s] =>
      some (withMesh (Model.mkMesh (parseSeq p) (parseCells c)) fun m =>
        showSeqs (Model.meshOccInPerm m (parseSeq s)))
  | "moccof", [p, c, s] =>
      some (withMesh (Model.mkMesh (parseSeq p) (parseCells c)) fun m =>
        showSeqs (Model.meshOccInPerm m (parseSeq s)))
  | "moccspec", [p, c, s] =>
      some (withMesh (Model.mkMesh (parseSeq p) (parseCells c)) fun m =>
        showSeqs (Spec.meshOccs m (parseSeq s)))
  | "bocc", [p, i, v, s] =>
      some (withMesh (Model.bivincular (parseSeq p) (parseInts i) (parseInts v)) fun m =>
        showSeqs (Model.meshOccInPerm m (parseSeq s)))
  | "vocc", [p, i, s] =>
      some (withMesh (Model.vincular (parseSeq p) (parseInts i)) fun m =>
        showSeqs (Model.meshOccInPerm m (parseSeq s)))
  | "cocc", [p, v, s] =>
      some (withMesh (Model.covincular (parseSeq p) (parseInts v)) fun m =>
        showSeqs (Model.meshOccInPerm m (parseSeq s)))
  | "bshade", [p, i, v] =>
      some (withMesh (Model.bivincular (parseSeq p) (parseInts i) (parseInts v)) showShading)
  | "mshade", [p, c] =>
      some (withMesh (Model.mkMesh (parseSeq p) (parseCells c)) showShading)
  | "mcount", [p, c, s] =>
      some (withMesh (Model.mkMesh (parseSeq p) (parseCells c)) fun m =>
        toString (Model.meshCount m (parseSeq s)))
  | "min", [p, c, s] =>
      some (withMesh (Model.mkMesh (parseSeq p) (parseCells c)) fun m =>
        showBool (Model.containsMesh (parseSeq s) m))
  | "mcontainedin", [p, c, ss] =>
      some (withMesh (Model.mkMesh (parseSeq p) (parseCells c)) fun m =>
        showBool (Model.meshContainedIn m (parseSeqs ss)))
  | "mavoidedby", [p, c, ss] =>
      some (withMesh (Model.mkMesh (parseSeq p) (parseCells c)) fun m =>
        showBool (Model.meshAvoidedBy m (parseSeqs ss)))
  | "mcontains", [s, its] =>
      (parseItems its).map fun l => showExcept showBool (Model.containsMixed (parseSeq s) l)
  | "mavoids", [s, its] =>
      (parseItems its).map fun l => showExcept showBool (Model.avoidsMixed (parseSeq s) l)
  | "mavoidsset", [s, its] =>
      (parseItems its).map fun l => showExcept showBool (Model.avoidsMixed (parseSeq s) l)
  | "mhist", [p, c, ss] =>
      some (withMesh (Model.mkMesh (parseSeq p) (parseCells c)) fun m =>
        let step := fun (st : Model.MeshObj × List String) (s : NSeq) =>
          let r := st.1.search s
          (r.1, st.2 ++ [showSeqs r.2])
        "|".intercalate ((parseSeqs ss).foldl step (⟨⟨m.pattern, none⟩, m.shading⟩, [])).2)
  | "mbadtarget", [p, c] =>
      some (withMesh (Model.mkMesh (parseSeq p) (parseCells c)) fun m =>
        showExcept showSeqs (Model.meshOccDispatch (fun _ _ => .ok []) m .other))
  | _, _ => none

end Driver.C03
