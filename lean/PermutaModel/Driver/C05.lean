import PermutaModel.Model.C05
import PermutaModel.Driver.C08
open Proto Generated Model.C08 Model.C05

/-! Line protocol of C05.  A pattern list is one token: C08 pattern tokens joined by `+` (`-` = none),
    e.g. `P0,1+M0,1/1.1+V0,1/1`.  Strings are written `=<text>` (no spaces).  A trailing `#…` token on
    mesh lines is the harness' classification of the input (ignored by the model). -/
namespace Driver.C05

def parseAtoms (s : String) : Except Err (List Atom) :=
  if s == "-" then .ok []
  else
    (s.splitOn "+").mapM fun t =>
      match Driver.C08.parseObj t with
      | .ok (.atom a) => .ok a
      | .ok _ => .error .valueError
      | .error e => .error e

/-- canonical printing order of a mesh basis (the property does not constrain the order of the tuple) -/
def canonMeshes (l : List MObj) : List MObj := l.mergeSort fun a b => !meshKeyLt b a

def showMeshes (l : List MObj) : String :=
  if l.isEmpty then "-" else ";".intercalate ((canonMeshes l).map Driver.C08.showMObj)

def allPerms (l : List Atom) : Bool := l.all fun a => !isMeshAtom a

def meshVal (m : MObj) : NSeq × List Cell := (m.pattern, m.shading)

/-- value-level equality of two results (`Except` of lists of mesh objects), classes ignored -/
def sameRes (a b : Except Err (List MObj)) : Bool :=
  match a, b with
  | .ok x, .ok y => x.map meshVal == y.map meshVal
  | _, _ => false

/-- avoidance class of a list of classical patterns up to length `n` -/
def classUpTo (n : Nat) (ps : List NSeq) : List NSeq := (Model.permsUpTo n).filter fun σ => Model.avoidsAll σ ps

def mclassUpTo (n : Nat) (ms : List MObj) : List NSeq :=
  (Model.permsUpTo n).filter fun σ => ms.all fun m => !Model.containsMesh σ ⟨m.pattern, m.shading⟩

def propsN : Nat := 5
def mpropsN : Nat := 4

/-- `props L`: the laws of the property on one classical input -/
def props (ps : List NSeq) : String :=
  let b := basisNew ps
  if basisNew ps.reverse != b then "order"
  else if basisNew (ps ++ ps) != b || basisNew (ps ++ ps.reverse ++ ps) != b then "dedup"
  else if basisNew b != b then "fixed"
  else if b.any (fun p => b.any fun q => p != q && Model.containsOne p q) || b.eraseDups.length != b.length then "antichain"
  else if classUpTo propsN b != classUpTo propsN ps then "class"
  else "ok"

def mprops (l : List Atom) : String :=
  match meshBasisNew l with
  | .error _ => "raises"
  | .ok b =>
    if !sameRes (meshBasisNew l.reverse) (.ok b) then "order"
    else if !sameRes (meshBasisNew (l ++ l)) (.ok b) then "dedup"
    else if !sameRes (meshBasisNew (b.map Atom.mesh)) (.ok b) then "fixed"
    else if (b.map meshVal).eraseDups.length != b.length ||
        b.any (fun p => b.any fun q => meshVal p != meshVal q && (match meshInMeshE q p with | .ok r => r | .error _ => false)) then "antichain"
    else if mclassUpTo mpropsN b != mclassUpTo mpropsN (l.map wrap) then "class"
    else "ok"

def parseAvOp (t : String) : Except Err AvOp :=
  if t == "X" then .ok .clear
  else if t.take 2 == "F=" then .ok (.ofString (t.drop 2).toString.toList)
  else if t.take 1 == "A" then
    match parseAtoms (t.drop 1).toString with
    | .ok l => .ok (.ofList l)
    | .error e => .error e
  else .error .valueError

def withAtoms (s : String) (f : List Atom → String) : String :=
  match parseAtoms s with
  | .error e => e.show
  | .ok l => f l

def stripTag (a : List String) : List String := a.filter fun t => t.take 1 != "#"

def handle (op : String) (a : List String) : Option String :=
  match op, stripTag a with
  | "basis", [l] => some (withAtoms l fun l =>
      if allPerms l then showSeqs (basisNew (l.map atomPerm)) else "unsupported")
  | "props", [l] => some (withAtoms l fun l =>
      if allPerms l then props (l.map atomPerm) else "unsupported")
  | "fromstr", [s] => some (showSeqs (basisFromString (s.drop 1).toString))
  | "strshift", [s] => some (
      let t := (s.drop 1).toString
      showBool (basisFromString t == basisFromString (shiftString t)))
  | "mbasis", [l] => some (withAtoms l fun l => showExcept showMeshes (meshBasisNew l))
  | "mprops", [l] => some (withAtoms l mprops)
  | "meshin", [p, h] => some (
      match Driver.C08.parseMObj p, Driver.C08.parseMObj h with
      | .ok p, .ok h => showExcept showBool (meshInMeshE p h)
      | .error e, _ => e.show
      | _, .error e => e.show)
  | "avbasis", [l] => some (withAtoms l fun l =>
      match avBasisOf l with
      | .error e => e.show
      | .ok b =>
        if avForbidden b then Err.valueError.show
        else match b with
          | .mbasis es => Driver.C08.showObj (.mbasis (canonMeshes es))
          | b => Driver.C08.showObj b)
  | "avhist", ops => some (
      match ops.mapM parseAvOp with
      | .error e => e.show
      | .ok ops => "|".intercalate ((avRun AvState.empty ops).map fun o =>
          match o with
          | .inst i => toString i
          | .err e => e.show
          | .cleared => "-"))
  | _, _ => none

end Driver.C05
