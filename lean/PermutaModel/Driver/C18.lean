import PermutaModel.Model.C18Int
open Proto

namespace Driver.C18
open Model.C18

def cell1 (s : String) : Cell := (parseCells s).headD (0, 0)

/-- a position with signed coordinates `x.y` (e.g. `-1.3`, `2.-4`) -/
def icell1 (s : String) : ICell :=
  match s.splitOn "." with
  | [a, b] => (parseInt a, parseInt b)
  | _ => (0, 0)

def sortCells (l : List Cell) : List Cell :=
  l.mergeSort fun a b => a.1 < b.1 || (a.1 == b.1 && a.2 ≤ b.2)

def showMeshS (m : Mesh) : String := s!"{showSeq m.pattern}/{showCells (sortCells m.shading)}"

def showGroup (g : List Cell) : String := "+".intercalate (g.map fun c => s!"{c.1}.{c.2}")

def strLe (a b : String) : Bool := a < b || a == b

def showBoxes (d : List (Nat × List (List Cell))) : String :=
  if d.isEmpty then "-" else
    "|".intercalate ((d.mergeSort fun a b => a.1 ≤ b.1).map fun kv =>
      s!"{kv.1}:{";".intercalate ((kv.2.map showGroup).mergeSort strLe)}")

def parseGroup (s : String) : List Cell := (s.splitOn "+").flatMap parseCells

/-- one-token encoding of a rendering: `' '→'.'`, newline→`'/'`, `▒→'#'`, `●→'o'`, prefixed by `=` -/
def enc (s : String) : String :=
  "=" ++ String.ofList (s.toList.map fun ch =>
    if ch == ' ' then '.' else if ch == '\n' then '/' else if ch == '▒' then '#' else if ch == '●' then 'o' else ch)

def bools4 (b : Bool × Bool × Bool × Bool) : String :=
  showBool b.1 ++ showBool b.2.1 ++ showBool b.2.2.1 ++ showBool b.2.2.2

/-- every returned value is the value of a point of the pattern in a corner of one of the boxes -/
def adjOK (m : Mesh) (cells : List Cell) (vals : List Nat) : Bool :=
  vals.all fun v => cells.any fun c =>
    (List.range m.pattern.length).any fun i =>
      (i + 1 == c.1 || i == c.1) && m.pattern.getD i 0 == v && (v + 1 == c.2 || v == c.2)

def handle1 (op : String) (a : List String) : Option String :=
  match op, a with
  | "shade", [p, c, ps] => some (showExcept showMeshS (shadeE (parseMesh p c) (parseCells ps)))
  | "addpt", [p, c, pos, d] => some (showExcept showMeshS (addPoint (parseMesh p c) (cell1 pos) (parseInt d)))
  | "addinc", [p, c, pos] => some (showExcept showMeshS (addIncrease (parseMesh p c) (cell1 pos)))
  | "adddec", [p, c, pos] => some (showExcept showMeshS (addDecrease (parseMesh p c) (cell1 pos)))
  | "necond", [p, c, pos] => some (showExcept showBool (neCond (parseMesh p c) (cell1 pos)))
  | "nesimul", [p, c, p1, p2] => some (showExcept showBool (neSimulI (parseMesh p c) (icell1 p1) (icell1 p2)))
  | "canshade", [p, c, pos] => some (showExcept showSeq (canShade (parseMesh p c) (cell1 pos)))
  | "cansimul", [p, c, p1, p2] =>
      some (showExcept showIntSeq (canSimulShadeI (parseMesh p c) (icell1 p1) (icell1 p2)))
  | "cs", [p, c, pos, _] =>
      some (showExcept (fun l => showBool !l.isEmpty) (canShade (parseMesh p c) (cell1 pos)))
  | "css", [p, c, p1, p2, _] =>
      some (showExcept (fun l => showBool !l.isEmpty) (canSimulShadeI (parseMesh p c) (icell1 p1) (icell1 p2)))
  | "cssz", [p, c, p1, p2, _] =>
      some (match canSimulShadeI (parseMesh p c) (icell1 p1) (icell1 p2) with
        | .ok l => showBool !l.isEmpty
        | .error _ => "F")
  | "adj", [p, c, pos] =>
      some (showExcept (fun l => showBool (adjOK (parseMesh p c) [cell1 pos] l)) (canShade (parseMesh p c) (cell1 pos)))
  | "adj2", [p, c, p1, p2] =>
      some (showExcept (fun l => showBool (adjOK (parseMesh p c) [cell1 p1, cell1 p2] l))
        (canSimulShade (parseMesh p c) (cell1 p1) (cell1 p2)))
  | "boxes", [p, c] => some (showExcept showBoxes (shadableBoxes (parseMesh p c)))
  | "sbl", [p, c, g, _] =>
      some (showExcept (fun d => showBool (d.any fun kv => kv.2.contains (parseGroup g)))
        (shadableBoxes (parseMesh p c)))
  | "isshaded1", [p, c, pos] => some (showExcept showBool (isShaded1 (parseMesh p c) (cell1 pos)))
  | "isshaded", [p, c, ll, ur] => some (showExcept showBool (isShaded (parseMesh p c) (cell1 ll) (cell1 ur)))
  | "ispf", [p, c, ll, ur] => some (showExcept showBool (isPointfree (parseMesh p c) (cell1 ll) (cell1 ur)))
  | "npb", [p, c] => some (showCells (sortCells (nonPointlessBoxes (parseMesh p c))))
  | "anchored", [p, c] => some (bools4 (hasAnchoredPoint (parseMesh p c)))
  | "plot", [p, c, cs] => some (showExcept enc (asciiPlot (parseMesh p c) (parseNat cs)))
  | "plotl", [p, c, cs] => some (showExcept (fun l => enc (String.ofList l)) (asciiPlotL (parseMesh p c) (parseNat cs)))
  | "plotrt", [p, c, cs] =>
      some (showExcept (fun s => showMeshS (parsePlotL s (parseNat cs))) (asciiPlotL (parseMesh p c) (parseNat cs)))
  | _, _ => none

/-- all C18 ops carry the prefix `c18.` -/
def handle (op : String) (a : List String) : Option String :=
  if op.startsWith "c18." then handle1 (op.drop 4).toString a else none

end Driver.C18
