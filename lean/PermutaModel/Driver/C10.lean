import PermutaModel.Model.C10
open Proto

namespace Driver.C10

/-- `N` = Python `None` -/
def parseOptInt (s : String) : Option Int := if s == "N" then none else some (parseInt s)

/-- component list of `inflate`: `-` empty list, `;`-separated, `N` = `None`, `_` = empty perm -/
def parseComps (s : String) : List (Option NSeq) :=
  if s == "-" then [] else (s.splitOn ";").map fun t => if t == "N" then none else some (parseSeq t)

def showPairs (l : List (Nat × Nat)) : String := showCells l

def showE (r : Except Err NSeq) : String := showExcept showSeq r

/-- chain two partial operations -/
def bindE (r : Except Err NSeq) (f : NSeq → Except Err NSeq) : Except Err NSeq :=
  match r with
  | .ok a => f a
  | .error e => .error e

def monoKind (s : String) : Model.MonoKind :=
  if s == "asc" then .asc else if s == "desc" then .desc else .both

def handle (op : String) (a : List String) : Option String :=
  match op, a with
  | "dsum", [p, qs] => some (showSeq (Model.directSumN (parseSeq p) (parseSeqs qs)))
  | "ssum", [p, qs] => some (showSeq (Model.skewSumN (parseSeq p) (parseSeqs qs)))
  | "add", [p, q] => some (showSeq (Model.directSum (parseSeq p) (parseSeq q)))
  | "sub", [p, q] => some (showSeq (Model.skewSum (parseSeq p) (parseSeq q)))
  | "mul", [p, q] => some (showE (Model.composeN (parseSeq p) [parseSeq q]))
  | "opbad", [_, _] => some Err.typeError.show
  | "compose", [p, qs] => some (showE (Model.composeN (parseSeq p) (parseSeqs qs)))
  | "apply", [p, l] => some (showExcept showSeq (Model.applyTo (parseSeq p) (parseSeq l)))
  | "call", [p, v] => some (showExcept toString (Model.call (parseSeq p) (parseInt v)))
  | "insert", [p, i, v] => some (showE (Model.insertOpt (parseSeq p) (parseOptInt i) (parseOptInt v)))
  | "remove", [p, i] => some (showE (Model.removeOpt (parseSeq p) (parseOptInt i)))
  | "remel", [p, s] => some (showE (Model.removeElementOpt (parseSeq p) (parseOptInt s)))
  | "inflate", [p, cs] => some (showE (Model.inflate (parseSeq p) (parseComps cs)))
  | "shr", [p, t] => some (showSeq (Model.shiftRight (parseSeq p) (parseInt t)))
  | "shl", [p, t] => some (showSeq (Model.shiftLeft (parseSeq p) (parseInt t)))
  | "shu", [p, t] => some (showSeq (Model.shiftUp (parseSeq p) (parseInt t)))
  | "shd", [p, t] => some (showSeq (Model.shiftDown (parseSeq p) (parseInt t)))
  | "issum", [p] => some (showBool (Model.isSumDecomposable (parseSeq p)))
  | "isskew", [p] => some (showBool (Model.isSkewDecomposable (parseSeq p)))
  | "sumdec", [p] => some (showSeqs (Model.sumDecomposition (parseSeq p)))
  | "skewdec", [p] => some (showSeqs (Model.skewDecomposition (parseSeq p)))
  | "blocks", [p] => some (showSeqs (Model.blockDecomposition (parseSeq p)))
  | "blockpats", [p] => some (showSeqs (Model.blockDecompositionAsPattern (parseSeq p)))
  | "mono", [k, p, w] => some (showPairs (Model.monoBlocks (monoKind k) (parseSeq p) (w == "T")))
  | "contract", [k, p] => some (showSeq (Model.contract (monoKind k) (parseSeq p)))
  | "mquot", [p] => some (showSeq (Model.contract .both (parseSeq p)))
  | "maxblock", [p] =>
      let r := Model.maximumBlock (parseSeq p)
      some s!"{r.1}.{r.2}"
  | "simple", [p] => some (showBool (Model.isSimple (parseSeq p)))
  | "ssimple", [p] => some (showBool (Model.isStronglySimple (parseSeq p)))
  | "children", [p] => some (showSeqs (Model.children (parseSeq p)))
  | "coveredby", [p] => some (showSeqs (Model.coveredby (parseSeq p)))
  -- composite (law) operations: both sides evaluated with the same functions
  | "rt_insrem", [p, i, v] =>
      some (showE (bindE (Model.insertOpt (parseSeq p) (parseOptInt i) (parseOptInt v)) fun q =>
        Model.removeOpt q (parseOptInt i)))
  | "rt_remins", [p, i] =>
      let q := parseSeq p
      let k := parseInt i
      some (showE (bindE (Model.removeOpt q (some k)) fun r =>
        Model.insertOpt r (some k) (some (q.getD k.toNat 0 : Nat))))
  | "law_comp", [p, q, r] =>
      let p := parseSeq p; let q := parseSeq q; let r := parseSeq r
      let c := fun x y => Model.composeN x [y]
      some ("|".intercalate [
        showE (bindE (c p q) fun pq => c pq r),
        showE (bindE (c q r) fun qr => c p qr),
        showE (Model.composeN p [q, r]),
        showE (c p (Model.identity p.length)),
        showE (c (Model.identity p.length) p),
        showE (c p (Model.inverse p)),
        showE (c (Model.inverse p) p),
        showSeq (Model.inverse (Model.compose p q)),
        showE (c (Model.inverse q) (Model.inverse p))])
  | "law_shift", [p, s, t] =>
      let p := parseSeq p; let s := parseInt s; let t := parseInt t
      some ("|".intercalate [
        showSeq (Model.shiftRight (Model.shiftRight p t) s),
        showSeq (Model.shiftRight p (s + t)),
        showSeq (Model.shiftLeft (Model.shiftRight p t) t),
        showSeq (Model.shiftUp (Model.shiftUp p t) s),
        showSeq (Model.shiftUp p (s + t)),
        showSeq (Model.shiftDown (Model.shiftUp p t) t),
        showSeq (Model.inverse (Model.shiftRight (Model.inverse p) t))])
  | "law_sum", [p, q, r] =>
      let p := parseSeq p; let q := parseSeq q; let r := parseSeq r
      some ("|".intercalate [
        showSeq (Model.directSum (Model.directSum p q) r),
        showSeq (Model.directSum p (Model.directSum q r)),
        showSeq (Model.directSumN p [q, r]),
        showSeq (Model.skewSum (Model.skewSum p q) r),
        showSeq (Model.skewSum p (Model.skewSum q r)),
        showSeq (Model.skewSumN p [q, r]),
        showSeq (Model.complement (Model.directSum (Model.complement p) (Model.complement q)))])
  | "law_dec", [p] =>
      let p := parseSeq p
      some ("|".intercalate [
        showSeq (Model.directSumN [] (Model.sumDecomposition p)),
        showSeq (Model.skewSumN [] (Model.skewDecomposition p)),
        showBool ((Model.sumDecomposition p).all fun c => !Model.isSumDecomposable c),
        showBool ((Model.skewDecomposition p).all fun c => !Model.isSkewDecomposable c),
        showSeqs ((Model.sumDecomposition (Model.complement p)).map Model.complement)])
  | _, _ => none

end Driver.C10
