import PermutaModel.Driver.C17
import PermutaModel.Model.C17AutoSrc
open Proto

/-! `auto_bisc` on a LIST and on a PAIR of dictionaries: the model `Model.C17.autoBiscSrc` against the implementation's
    answer.

`autolistm <patterns> <N> <rev> <extra> <answer>`: the list of all permutations of length `≤ N` that avoid the mesh
patterns (lengths increasing, `Perm.of_length` order inside a length) followed by the permutations `extra` (any, also
repeated ones); `rev = T`: the whole list reversed.
`autopairm <patterns> <NA> <NB> <answer>`: the dictionaries `A` (keys `0 … NA`, the avoiders) and `B` (keys `0 … NB`,
the others).  As for `automodel`, `search` (glue, nothing is proved about it) looks breadth first for choices of
`bases[0]` under which the model gives the implementation's answer (`None` for both ways of giving up) and the line
prints what the model returns under that choice function. -/

namespace Driver.C17Src
open Model.C17 Driver.C17

inductive St where
  | outer (L n m : Nat) (path : Path)
  | inner (SG : PattDict) (L m n ib : Nat) (path : Path)

def expand (src : Source) (A B : Nat → List NSeq) (target : String) : St → Sum Path (List St)
  | .outer L n m path =>
    let SG := biscD (dflt A L) m n
    if learnOkS src SG B L then .inr [.inner SG L m n (ibStart SG) path]
    else
      match src.grow L (n + 1) with
      | none => if target == "None" then .inl path else .inr []
      | some L' => .inr [.outer L' (n + 1) (m + 1) path]
  | .inner SG L m n ib path =>
    match runCleanUp SG (dflt B L) n ib with
    | .error _ => .inr []
    | .ok [] => .inr [.inner SG L m n (ib + 1) path]
    | .ok bases =>
      let vs := (List.range bases.length).zip (bases.map fun b => (verdictS src A B L (toSg b), b))
      match vs.find? fun v => v.2.1 == .accept && showDict (toSg v.2.2) == target with
      | some v => .inl (path ++ [((n, ib), v.1)])
      | none =>
        match vs.find? fun v => v.2.1 == .needLonger with
        | some v =>
          match src.grow L (n + 1) with
          | none => if target == "None" then .inl (path ++ [((n, ib), v.1)]) else .inr []
          | some L' =>
            .inr ((match vs.find? fun v => v.2.1 == .badBasis with
                   | some w => [.inner SG L m (n + 1) ib (path ++ [((n, ib), w.1)])]
                   | none => []) ++ [.outer L' (n + 1) m (path ++ [((n, ib), v.1)])])
        | none =>
          match vs.find? fun v => v.2.1 == .badBasis with
          | some w => .inr [.inner SG L m (n + 1) ib (path ++ [((n, ib), w.1)])]
          | none => .inr []

def search (src : Source) (A B : Nat → List NSeq) (target : String) : Nat → List St → Path
  | 0, _ => []
  | _, [] => []
  | f + 1, s :: rest =>
    match expand src A B target s with
    | .inl path => path
    | .inr succ => search src A B target f (rest ++ succ)

def showSrc : SrcRes → String
  | .found sg => showDict sg
  | .tooShort => "None"
  | .needLonger => "None"
  | .outOfFuel => "outOfFuel"
  | .err e => e.show

/-- the kind of `None`, for the diagnostic op -/
def showSrcKind : SrcRes → String
  | .found sg => showDict sg
  | .tooShort => "None:tooShort"
  | .needLonger => "None:needLonger"
  | .outOfFuel => "outOfFuel"
  | .err e => e.show

def runSrc (src : Source) (has8 : Bool) (A B : Nat → List NSeq) (target : String) : SrcRes :=
  let tA := tabOf A
  let tB := tabOf B
  let A' := fromTab tA A
  let B' := fromTab tB B
  let path := if has8 then search src A' B' target 64 [.outer 8 4 2 []] else []
  autoBiscSrc autoFuel (chOf path) src has8 A' B'

def propOf (spec : String) : NSeq → Bool :=
  let ms := parseMeshes spec
  fun σ => ms.all fun m => !Model.containsMesh σ m

def listOf (P : NSeq → Bool) (N : Nat) (rev : Bool) (extra : List NSeq) : List NSeq :=
  let l := (List.range (N + 1)).flatMap (goodOf P) ++ extra
  if rev then l.reverse else l

def handle (op : String) (a : List String) : Option String :=
  match op, a with
  | "autolistm", [spec, N, rev, extra, target] =>
    let lst := listOf (propOf spec) (parseNat N) (rev == "T") (parseSeqs extra)
    some (showSrc (runSrc (.list (maxLen lst)) (lst.any fun p => p.length == 8) (listA lst) (listB lst) target))
  | "autolistk", [spec, N, rev, extra, target] =>
    let lst := listOf (propOf spec) (parseNat N) (rev == "T") (parseSeqs extra)
    some (showSrcKind (runSrc (.list (maxLen lst)) (lst.any fun p => p.length == 8) (listA lst) (listB lst) target))
  | "autopairm", [spec, NA, NB, target] =>
    let P := propOf spec
    let A := fun k => if k ≤ parseNat NA then goodOf P k else []
    let B := fun k => if k ≤ parseNat NB then badOf P k else []
    some (showSrc (runSrc (.pair (parseNat NA) (parseNat NB)) (decide (8 ≤ parseNat NA)) A B target))
  | "autopairk", [spec, NA, NB, target] =>
    let P := propOf spec
    let A := fun k => if k ≤ parseNat NA then goodOf P k else []
    let B := fun k => if k ≤ parseNat NB then badOf P k else []
    some (showSrcKind (runSrc (.pair (parseNat NA) (parseNat NB)) (decide (8 ≤ parseNat NA)) A B target))
  | _, _ => none

end Driver.C17Src
