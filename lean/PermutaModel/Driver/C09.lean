import PermutaModel.Model.C09Repr
open Proto

namespace Driver.C09

/-- string argument `s:<characters>` (so that the empty string is a token) -/
def parseStr (t : String) : List Char := (t.toList).drop 2

def parseOptInt (t : String) : Option Int := if t == "N" then none else some (parseInt t)

def parseIntSeq (s : String) : List Int :=
  if s == "_" then [] else (s.splitOn ",").filterMap String.toInt?

/-- values for `from_iterable_validated`: integers, anything else is a non-integer object -/
def parseVals (s : String) : List Model.PyVal :=
  if s == "_" then [] else (s.splitOn ",").map fun t =>
    match t.toInt? with
    | some i => .int i
    | none => .other

def showMeshes (l : List Mesh) : String :=
  if l.isEmpty then "-" else ";".intercalate (l.map showMesh)

/-- a text argument `s:<characters>` in which `~` stands for a blank (tokens cannot contain blanks) -/
def parseText (t : String) : List Char := (parseStr t).map fun c => if c = '~' then ' ' else c

def showParsed : Option NSeq → String
  | some s => showSeq s
  | none => "NONE"

/-- a rejection is printed as such, whether the text is outside the sub-grammar or the constructor's `assert`
    fails (outside the sub-grammar Python raises exceptions of several classes, which are not compared) -/
def showEvalMesh : Option (Except Err Mesh) → String
  | some (.ok m) => showMesh m
  | some (.error _) => "NONE"
  | none => "NONE"

/-- count, last element and a rolling digest of a listing: lets the generators be compared at lengths where
    printing every permutation would be too long (`gendig`) -/
def digest (l : List NSeq) : String :=
  let h := l.foldl (fun h p => p.foldl (fun h v => (h * 31 + v + 1) % 1000000007) ((h * 31) % 1000000007)) 7
  toString l.length ++ " " ++ showSeq (l.getLast?.getD []) ++ " " ++ toString h

def handle (op : String) (a : List String) : Option String :=
  match op, a with
  | "gendig", ["upto", n] => some (digest (Model.upToLength (parseInt n)))
  | "gendig", ["oflen", n] => some (digest (Model.ofLength (parseInt n)))
  | "oflen", [n] => some (showSeqs (Model.ofLength (parseInt n)))
  | "upto", [n] => some (showSeqs (Model.upToLength (parseInt n)))
  | "first", [k] => some (showExcept showSeqs (Model.first (parseInt k)))
  | "unrank", [k, n] => some (showExcept showSeq (Model.unrank (parseInt k) (parseOptInt n)))
  | "rank", [p] => some (toString (Model.rank (parseSeq p)))
  | "rankunrank", [k] =>
      some (match Model.unrank (parseInt k) none with
        | .ok p => toString (Model.rank p)
        | .error e => e.show)
  | "unrankrank", [p] => some (showExcept showSeq (Model.unrank (Model.rank (parseSeq p)) none))
  | "lt", [p, q] => some (showBool (Model.permLt (parseSeq p) (parseSeq q)))
  | "ident", [n] => some (showSeq (Model.identity (parseInt n).toNat))
  | "std", [_, l] => some (showSeq (Model.toStandard (parseSeq l)))
  | "stdhist", [ls] => some ("|".intercalate ((Model.toStandardHistory 10000 [] (parseSeqs ls)).map showSeq))
  | "fromint", [i] => some (showExcept showSeq (Model.fromInteger (parseInt i)))
  | "fromstr", [s] => some (showExcept showSeq (Model.fromChars (parseStr s)))
  | "onebased", [l] => some (showIntSeq (Model.oneBased (parseIntSeq l)))
  | "validated", [l] => some (showExcept showSeq (Model.fromIterableValidated (parseVals l)))
  | "validatedstr", [s] => some (showExcept showSeq (Model.fromValidatedChars (parseStr s)))
  | "str", [p] => some (Model.str (parseSeq p))
  | "repr", [p] => some (Model.repr (parseSeq p))
  | "strrt", [p] => some (showExcept showSeq (Model.fromChars (Model.strChars (parseSeq p))))
  | "intrt0", [p] => some (showExcept showSeq (Model.fromInteger (Model.digitsToNat (parseSeq p))))
  | "intrt1", [p] =>
      some (showExcept showSeq (Model.fromInteger (Model.digitsToNat ((parseSeq p).map (· + 1)))))
  | "onert", [p] =>
      some (showIntSeq (Model.oneBased ((parseSeq p).map fun (v : Nat) => Int.ofNat v + 1)))
  | "validok", [l] =>
      some (match Model.fromIterableValidated (parseVals l) with | .ok _ => "T" | .error _ => "F")
  | "mrankunrank", [p, k] =>
      some (match Model.meshUnrank (parseSeq p) (parseInt k) with
        | .ok m => toString (Model.meshRank m)
        | .error e => e.show)
  | "munrankrank", [p, c] =>
      some (showExcept showMesh (Model.meshUnrank (parseSeq p) (Model.meshRank ⟨parseSeq p, parseCells c⟩)))
  | "munrank", [p, k] => some (showExcept showMesh (Model.meshUnrank (parseSeq p) (parseInt k)))
  | "mrank", [p, c] => some (toString (Model.meshRank ⟨parseSeq p, parseCells c⟩))
  | "moflen", [n, p] =>
      some (showExcept showMeshes (Model.meshOfLength (parseNat n) (if p == "N" then none else some (parseSeq p))))
  | "reprparse", [t] => some (showParsed (Model.parseReprChars (parseText t)))
  | "reprread", [p, t] =>
      some (if Model.reprChars (parseSeq p) = parseText t then showParsed (Model.parseReprChars (parseText t))
        else "TEXT:" ++ Model.repr (parseSeq p))
  | "mrepr", [p, c] => some (Model.meshRepr ⟨parseSeq p, parseCells c⟩)
  | "mreprparse", [t] => some (showEvalMesh (Model.evalMeshReprChars (parseText t)))
  | "mreprread", [p, c, t] =>
      some (if Model.meshReprChars ⟨parseSeq p, parseCells c⟩ = parseText t
        then showEvalMesh (Model.evalMeshReprChars (parseText t))
        else "TEXT:" ++ Model.meshRepr ⟨parseSeq p, parseCells c⟩)
  | _, _ => none

end Driver.C09
