import PermutaModel.Model.C14
open Proto

namespace Driver.C14
open Model.C14

def parseWord (s : String) : Word :=
  if s == "_" then [] else s.toList.map Letter.ofChar

def showWord (w : Word) : String :=
  if w.isEmpty then "_" else String.ofList (w.map Letter.toChar)

def sortStrs (l : List String) : List String := l.mergeSort fun a b => !(decide (b < a))

def showWords (sep empty : String) (l : List Word) : String :=
  if l.isEmpty then empty else sep.intercalate (l.map showWord)

def showGen {α} (f : List α → String) (g : Gen α) : String :=
  match g.2 with
  | none => f g.1
  | some e => f g.1 ++ "!" ++ e.show

def showW2P (t : List (Word × NSeq)) : String :=
  if t.isEmpty then "-" else ";".intercalate (sortStrs (t.map fun kv => showWord kv.1 ++ ":" ++ showSeq kv.2))

def showP2W (t : List (NSeq × List Word)) : String :=
  if t.isEmpty then "-" else
    ";".intercalate (sortStrs (t.map fun kv =>
      showSeq kv.1 ++ ":" ++ ",".intercalate (sortStrs (kv.2.map showWord))))

def showBools (l : List Bool) : String := String.ofList (l.map fun b => if b then 'T' else 'F')

def parseTOp (s : String) : Option TOp :=
  match s.toList with
  | 'W' :: r => some (.W (parseNat (String.ofList r)))
  | 'P' :: r => some (.P (parseNat (String.ofList r)))
  | 'S' :: r => some (.S (parseNat (String.ofList r)))
  | 'L' :: r => match (String.ofList r).splitOn ":" with
    | [n, p] => some (.L (parseNat n) (parseSeq p))
    | _ => none
  | 'G' :: r => match (String.ofList r).splitOn ":" with
    | [n, p] => some (.G (parseNat n) (parseSeq p))
    | _ => none
  | _ => none

def showTOut : TOut → String
  | .w2p t => showW2P t
  | .p2w t => showP2W t
  | .words ws => showWords "," "-" (sortStrs (ws.map showWord) |>.map parseWord)
  | .err e => e.show

/-- `pinwordToPermMapping k` for the lengths the harness asks for over and over, evaluated once per
    driver process (closed constants); semantically `containsTable` -/
def tbl0 := pinwordToPermMapping 0
def tbl1 := pinwordToPermMapping 1
def tbl2 := pinwordToPermMapping 2
def tbl3 := pinwordToPermMapping 3
def tbl4 := pinwordToPermMapping 4

def containsTableMemo (w : Word) (k : Nat) (filt : Bool) : Except Err (List Bool) :=
  let t := match k with
    | 0 => tbl0 | 1 => tbl1 | 2 => tbl2 | 3 => tbl3 | 4 => tbl4
    | _ => pinwordToPermMapping k
  match t with
  | .error e => .error e
  | .ok tbl => containsTableWith tbl w k filt

def handle (op : String) (a : List String) : Option String :=
  match op, a with
  | "pw_w2p", [w] => some (showExcept showSeq (pinwordToPerm (parseWord w)))
  | "pw_len", [n] => some (showWords "," "-" (pinwordsOfLength (parseNat n)))
  | "pw_set", [n] => some (",".intercalate (sortStrs ((pinwordsOfLength (parseNat n)).map showWord)))
  | "pw_sset", [n] => some (",".intercalate (sortStrs ((strictPinwordsOfLength (parseNat n)).map showWord)))
  | "pw_w2ptab", [n] => some (showExcept showW2P (pinwordToPermMapping (parseNat n)))
  | "pw_p2wtab", [n] => some (showExcept showP2W (permToPinwordMapping (parseNat n)))
  | "pw_p2swtab", [n] => some (showExcept showP2W (permToStrictPinwordMapping (parseNat n)))
  | "pw_strict", [w] => some (showBool (isStrict (parseWord w)))
  | "pw_factor", [w] => some (showWords "," "-" (factor (parseWord w)))
  | "pw_sp2m", [w] => some (showExcept (fun l => ",".intercalate (sortStrs (l.map showWord))) (spToM (parseWord w)))
  | "pw_m2sp", [w] => some (showExcept showWord (mToSp (parseWord w)))
  | "pw_rtsp", [w] =>
      some (showExcept showBool (do
        let ms ← spToM (parseWord w)
        let rs ← ms.mapM mToSp
        pure (rs.all (· = parseWord w))))
  | "pw_rtm", [m] =>
      some (showExcept showBool (do
        let sp ← mToSp (parseWord m)
        let ms ← spToM sp
        pure (ms.contains (parseWord m))))
  | "pw_quad", [w, i] => some (showExcept (fun c => showWord [c]) (quadrant (parseWord w) (parseNat i)))
  | "pw_occsp", [w, u, st] => some (showGen showSeq (occSp (parseWord w) (parseWord u) (parseNat st)))
  | "pw_occ", [w, u] => some (showGen showSeqs (occurrences (parseWord w) (parseWord u)))
  | "pw_contsp", [w, u] => some (showExcept showBool (containsSp (parseWord w) (parseWord u)))
  | "pw_cont", [w, u] => some (showExcept showBool (contains (parseWord w) (parseWord u)))
  | "pw_contnt", [w, u] => some (showExcept showBool (containsNT (parseWord w) (parseWord u)))
  | "pw_pcont", [w, k] => some (showExcept showBools (containsTableMemo (parseWord w) (parseNat k) false))
  | "pw_pcontnt", [w, k] => some (showExcept showBools (containsTableMemo (parseWord w) (parseNat k) true))
  | "pw_tblhist", [ops] =>
      match (ops.splitOn ";").mapM parseTOp with
      | none => none
      | some l => some ("|".intercalate ((runT {} l).map showTOut))
  | _, _ => none

end Driver.C14
