import PermutaModel.Model.C12
import PermutaModel.Spec.C12
open Proto

namespace Driver.C12

def showOptNat : Option Nat → String
  | some k => toString k
  | none => "DIVERGES"

def showSS : Except Model.SSErr (List Nat) → String
  | .ok l => showSeq l
  | .error e => e.show

def sortAll (l : List Nat) : String :=
  "|".intercalate [
    showSeq (Model.stackSort l), showSeq (Model.popStackSort l), showSeq (Model.bubbleSort l),
    showExcept showSeq (Model.quickSortE l),
    showBool (Model.stackSortable l), showBool (Model.popStackSortable l), showBool (Model.bubbleSortable l),
    showExcept showBool (Model.quickSortableE l),
    showBool (Model.west2 l), showBool (Model.west3 l),
    showOptNat (Model.countStackSorts l), showOptNat (Model.countPopStackSorts l)]

/-- `ss.chk`: permutation? same ltr minima? avoids the codomain pattern? inverse undoes it? -/
def ssChk (l : List Nat) (inverse : Bool) : String :=
  let fwd := if inverse then Model.simionSchmidtInv else Model.simionSchmidt
  let bwd := if inverse then Model.simionSchmidt else Model.simionSchmidtInv
  let forb : List Nat := if inverse then [0, 1, 2] else [0, 2, 1]
  match fwd l with
  | .error e => e.show
  | .ok t =>
    match bwd t with
    | .error e => e.show
    | .ok b =>
      "|".intercalate [showBool (isPermB t), showBool (Model.ltrMin t == Model.ltrMin l),
        showBool (!Model.containsOne t forb), showBool (b == l)]

def dedupCount (ls : List (List Nat)) : Nat := (ls.foldl (fun acc x => if acc.contains x then acc else x :: acc) []).length

/-- `ss.bij n`: |domain| | #distinct images | image set = codomain | inverse undoes | ltr minima fixed -/
def ssBij (n : Nat) (inverse : Bool) : String :=
  let fwd := if inverse then Model.simionSchmidtInv else Model.simionSchmidt
  let bwd := if inverse then Model.simionSchmidt else Model.simionSchmidtInv
  let dom := Model.avoidersOf (if inverse then [0, 2, 1] else [0, 1, 2]) n
  let cod := Model.avoidersOf (if inverse then [0, 1, 2] else [0, 2, 1]) n
  let img := dom.map fun s => match fwd s with | .ok t => t | .error _ => [n + 7]
  let back := (dom.zip img).all fun st => match bwd st.2 with | .ok b => b == st.1 | .error _ => false
  let same := img.all (cod.contains ·) && cod.all (img.contains ·)
  let mins := (dom.zip img).all fun st => Model.ltrMin st.1 == Model.ltrMin st.2
  s!"{dom.length}|{dedupCount img}|{showBool same}|{showBool back}|{showBool mins}"

def famAll (l : List Nat) : String :=
  String.join ([Model.smooth l, Model.forestLike l, Model.baxter l, Model.simsun l, Model.dihedral l,
    Model.inAlternatingGroup l, Model.ytAvoids22 l, Model.ytAvoids32 l, Model.av231AndMesh l,
    Model.hardMesh l].map showBool)

/-- sort a list of sequences lexicographically (same length) for set-valued outputs -/
def sortSeqs (ls : List (List Nat)) : List (List Nat) :=
  ls.mergeSort fun a b => lexLt a b || a == b

def handle (op : String) (a : List String) : Option String :=
  match op, a with
  | "sort.stack", [s] => some (showSeq (Model.stackSort (parseSeq s)))
  | "sort.pop", [s] => some (showSeq (Model.popStackSort (parseSeq s)))
  | "sort.bubble", [s] => some (showSeq (Model.bubbleSort (parseSeq s)))
  | "sort.quick", [s] => some (showExcept showSeq (Model.quickSortE (parseSeq s)))
  | "dev.stack", [s] => some (showSeq (Spec.stackPass (parseSeq s)))
  | "dev.pop", [s] => some (showSeq (Spec.popStackPass (parseSeq s)))
  | "dev.bubble", [s] => some (showSeq (Spec.bubblePass (parseSeq s)))
  | "dev.quick", [s] => some (showSeq (Spec.quickPass (parseSeq s)))
  | "able.stack", [s] => some (showBool (Model.stackSortable (parseSeq s)))
  | "able.pop", [s] => some (showBool (Model.popStackSortable (parseSeq s)))
  | "able.bubble", [s] => some (showBool (Model.bubbleSortable (parseSeq s)))
  | "able.quick", [s] => some (showExcept showBool (Model.quickSortableE (parseSeq s)))
  | "west2", [s] => some (showBool (Model.west2 (parseSeq s)))
  | "west3", [s] => some (showBool (Model.west3 (parseSeq s)))
  | "cnt.stack", [s] => some (showOptNat (Model.countStackSorts (parseSeq s)))
  | "cnt.pop", [s] => some (showOptNat (Model.countPopStackSorts (parseSeq s)))
  | "sort.all", [s] => some (sortAll (parseSeq s))
  | "ss.fwd", [s] => some (showSS (Model.simionSchmidt (parseSeq s)))
  | "ss.inv", [s] => some (showSS (Model.simionSchmidtInv (parseSeq s)))
  | "ss.chk", [s] => some (ssChk (parseSeq s) false)
  | "ss.chkinv", [s] => some (ssChk (parseSeq s) true)
  | "ss.bij", [n] => some (ssBij (parseNat n) false)
  | "ss.bijinv", [n] => some (ssBij (parseNat n) true)
  | "ss.bad", ["tuple"] => some "ERR:AttributeError"
  | "ss.bad", ["tupleinv"] => some "ERR:AttributeError"
  | "ss.bad", ["none"] => some "ERR:TypeError"
  | "ss.bad", ["emptytuple"] => some "_"
  | "fam.smooth", [s] => some (showBool (Model.smooth (parseSeq s)))
  | "fam.forest", [s] => some (showBool (Model.forestLike (parseSeq s)))
  | "fam.baxter", [s] => some (showBool (Model.baxter (parseSeq s)))
  | "fam.simsun", [s] => some (showBool (Model.simsun (parseSeq s)))
  | "fam.dihedral", [s] => some (showBool (Model.dihedral (parseSeq s)))
  | "fam.alt", [s] => some (showBool (Model.inAlternatingGroup (parseSeq s)))
  | "fam.yt22", [s] => some (showBool (Model.ytAvoids22 (parseSeq s)))
  | "fam.yt32", [s] => some (showBool (Model.ytAvoids32 (parseSeq s)))
  | "fam.av231mesh", [s] => some (showBool (Model.av231AndMesh (parseSeq s)))
  | "fam.hardmesh", [s] => some (showBool (Model.hardMesh (parseSeq s)))
  | "fam.all", [s] => some (famAll (parseSeq s))
  | "yt", [s] => some (showSeqs (Model.permToYt (parseSeq s)))
  | "dgroup", [n] => some (showSeqs (sortSeqs (Model.dihedralGroup (parseNat n))))
  | "dgroup.len", [n] => some (toString (Model.dihedralGroup (parseNat n)).length)
  | _, _ => none

end Driver.C12
