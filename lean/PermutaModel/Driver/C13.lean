import PermutaModel.Model.C13
open Proto

namespace Driver.C13
open Model.C13

/-- memo state of the two process-wide tables -/
structure St where
  t : TCache
  p : PCache

/-- one call `op container perms` on the memoised functions -/
def call (s : St) (op kind : String) (B : List NSeq) : Option (St × String) :=
  let it := container kind B
  match op with
  | "fin" => some (s, showBool (isFinite it))
  | "poly" => let r := isPolynomialC s.t it; some ({ s with t := r.1 }, showBool r.2)
  | "npoly" => let r := isPolynomialC s.t it; some ({ s with t := r.1 }, showBool (!r.2))
  | "insr" => let r := isRightmostC s.p it; some ({ s with p := r.1 }, showBool r.2)
  | "insm" => let r := isMaximumC s.p it; some ({ s with p := r.1 }, showBool r.2)
  | "ins" => let r := isInsEncC s.p it; some ({ s with p := r.1 }, showBool r.2)
  | _ => none

def histGo (s : St) : List String → Option (List String)
  | [] => some []
  | tok :: rest =>
    match tok.splitOn "." with
    | [op, kind, b] =>
      match call s op kind (parseSeqs b) with
      | some (s', out) => (histGo s' rest).map (out :: ·)
      | none => none
    | _ => none

def showExB (r : Except Err Bool) : String := showExcept showBool r

def handle (op : String) (a : List String) : Option String :=
  match op, a with
  | "enum", [b] =>
      some s!"fin={showBool (isFinite ⟨parseSeqs b, false⟩)} poly={showBool (isPolynomial ⟨parseSeqs b, false⟩)}"
  | "av", [which, b] =>
      (match which with
       | "fin" => some (showExB (avIsFinite (parseSeqs b)))
       | "poly" => some (showExB (avIsPolynomial (parseSeqs b)))
       | "ins" => some (showExB (avIsInsEnc (parseSeqs b)))
       | _ => none)
  | "avmesh", [which, _] =>
      if which == "fin" || which == "poly" || which == "ins" then some (showExB avMeshVerdict) else none
  | "clipoly", [b] => some (cliPoly (parseSeqs b))
  | "cliins", [b] => some (showExcept (fun l => if l.isEmpty then "-" else "+".intercalate l) (cliInsEnc (parseSeqs b)))
  | "sym8", [o, b] =>
      (List.range 8).foldr (fun k acc =>
        match call ⟨[], []⟩ o "list" ((parseSeqs b).map (sym k)), acc with
        | some (_, out), some s => some (out ++ s)
        | _, _ => none) (some "")
  | "hist", _ :: calls => (histGo ⟨[], []⟩ calls).map ("|".intercalate ·)
  | "bad", [o, w] =>
      -- glue code on arguments that are not iterables of `Perm` (duck typing of the real functions)
      if !(o == "fin" || o == "poly" || o == "ins" || o == "insr") then none
      else if w == "int" || w == "none" then some Err.typeError.show
      else if w == "tuples" then
        (if o == "fin" || o == "poly" then some "ERR:AttributeError"
         else (call ⟨[], []⟩ o "list" [[0, 1], [1, 0]]).map (·.2))
      else if w == "ints" then (if o == "fin" then some "ERR:AttributeError" else some Err.typeError.show)
      else none
  | o, [kind, b] => (call ⟨[], []⟩ o kind (parseSeqs b)).map (·.2)
  | _, _ => none

end Driver.C13
