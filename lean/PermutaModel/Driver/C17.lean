import PermutaModel.Model.C17
import PermutaModel.Model.C17Auto
import PermutaModel.Spec.C17
open Proto

namespace Driver.C17
open Model.C17

/-! canonical printing: cells, shadings, patterns and levels sorted (Python: `sorted`) -/
def cellLe (a b : Cell) : Bool := a.1 < b.1 || (a.1 == b.1 && a.2 ≤ b.2)

def cellsLe : List Cell → List Cell → Bool
  | [], _ => true
  | _ :: _, [] => false
  | a :: as, b :: bs => if a == b then cellsLe as bs else cellLe a b

def seqLe : List Nat → List Nat → Bool
  | [], _ => true
  | _ :: _, [] => false
  | a :: as, b :: bs => if a == b then seqLe as bs else a < b

def dedupAdj {α} [BEq α] : List α → List α
  | [] => []
  | [a] => [a]
  | a :: b :: t => if a == b then dedupAdj (b :: t) else a :: dedupAdj (b :: t)

def canonSh (s : Shading) : Shading := dedupAdj (s.mergeSort cellLe)

def showShs (Rs : List Shading) : String :=
  if Rs.isEmpty then "-" else "+".intercalate (((Rs.map canonSh).mergeSort cellsLe).map showCells)

def showLevel (lv : Level) : String :=
  if lv.isEmpty then "-" else
    ";".intercalate ((lv.mergeSort fun a b => seqLe a.1 b.1).map fun e => s!"{showSeq e.1}/{showShs e.2}")

def showDict (d : PattDict) : String :=
  if d.isEmpty then "-" else
    "|".intercalate ((d.mergeSort fun a b => a.1 ≤ b.1).map fun lv => s!"{lv.1}:{showLevel lv.2}")

def parseShs (s : String) : List Shading :=
  if s == "-" then [] else (s.splitOn "+").map parseCells

def parseLevel (s : String) : Level :=
  if s == "-" then [] else (s.splitOn ";").filterMap fun t =>
    match t.splitOn "/" with
    | [p, r] => some (parseSeq p, parseShs r)
    | _ => none

def parseDict (s : String) : PattDict :=
  if s == "-" then [] else (s.splitOn "|").filterMap fun t =>
    match t.splitOn ":" with
    | [k, l] => some (parseNat k, parseLevel l)
    | _ => none

def parseRep (s : String) : Option Rep :=
  if s == "list" then some .list else if s == "dict" then some .dict
  else if s == "pred" then some .pred else none

def parseOptNat (s : String) : Option Nat := if s == "N" then none else some (parseNat s)


/-! ### `auto_bisc`: the nondeterministic model against the implementation's answer

`automodel <patterns> <answer of the implementation>`: the property is "avoids all of these mesh patterns".
`autoSearch` (glue, nothing is proved about it) looks breadth first for choices - an index into the list of bases at
every choice point `(n, ib)` - under which the model returns the implementation's answer; the line then prints what the
model `Model.C17.autoBiscProp` (the definition the theorems are about) returns under *that* choice function.  When no
such choices exist the run that always takes the first basis is printed (and differs from the implementation). -/

abbrev Path := List ((Nat × Nat) × Nat)

def chOf (path : Path) : Choice := fun n ib _ => (path.lookup (n, ib)).getD 0

inductive St where
  | outer (L n m : Nat) (path : Path)
  | inner (SG : PattDict) (L m n ib : Nat) (path : Path)

/-- one expansion: either the choices that reach `target`, or the successor states -/
def expand (A B : Nat → List NSeq) (target : String) : St → Sum Path (List St)
  | .outer L n m path =>
    let SG := biscD (dflt A L) m n
    if learnOk SG B L then .inr [.inner SG L m n (ibStart SG) path]
    else .inr [.outer (max L (n + 2)) (n + 1) (m + 1) path]
  | .inner SG L m n ib path =>
    match runCleanUp SG (dflt B L) n ib with
    | .error _ => .inr []
    | .ok [] => .inr [.inner SG L m n (ib + 1) path]
    | .ok bases =>
      let vs := (List.range bases.length).zip (bases.map fun b => (verdict A B L (toSg b), b))
      match vs.find? fun v => v.2.1 == .accept && showDict (toSg v.2.2) == target with
      | some v => .inl (path ++ [((n, ib), v.1)])
      | none =>
        .inr (
          (match vs.find? fun v => v.2.1 == .badBasis with
           | some v => [.inner SG L m (n + 1) ib (path ++ [((n, ib), v.1)])]
           | none => []) ++
          (match vs.find? fun v => v.2.1 == .needLonger with
           | some v => [.outer (max L (n + 2)) (n + 1) m (path ++ [((n, ib), v.1)])]
           | none => []))

def autoSearch (A B : Nat → List NSeq) (target : String) : Nat → List St → Path
  | 0, _ => []
  | _, [] => []
  | f + 1, s :: rest =>
    match expand A B target s with
    | .inl path => path
    | .inr succ => autoSearch A B target f (rest ++ succ)

def showAuto : AutoRes → String
  | .found sg => showDict sg
  | .outOfFuel => "outOfFuel"
  | .err e => e.show

/-- memo tables for the lengths `0 … 8` (extensionally `goodOf P` / `badOf P`) -/
def tabOf (f : Nat → List NSeq) : Array (List NSeq) := ((List.range 9).map f).toArray
def fromTab (tab : Array (List NSeq)) (f : Nat → List NSeq) (k : Nat) : List NSeq :=
  if k < 9 then tab.getD k [] else f k

def autoFuel : Nat := 12

def handle (op : String) (a : List String) : Option String :=
  match op, a with
  | "bisc", ["tuple", _, _, _] => some Err.assertion.show     -- bisc.py:39-46 `assert False`
  | "bisc", [rep, m, n, A] =>
    (parseRep rep).map fun r =>
      showExcept showDict (bisc r (parseSeqs A) (parseNat m) (parseOptNat n))
  | "mine", [m, n, A] =>
    let r := mine (mkD .list (parseSeqs A) (parseNat n)) (parseNat m) (parseNat n)
    some s!"{showSeq r.1}#{showDict ((List.range r.2.length).zip r.2)}"
  | "judge", [m, n, A, SG] =>
    let ms := meshesOf (parseDict SG)
    let A := parseSeqs A
    some (showBool (Spec.C17.soundB A (parseNat n) ms) ++ showBool (Spec.C17.completeB A (parseNat m) ms)
      ++ showBool (Spec.C17.irredundantB A (parseNat n) ms))
  | "pcont", [s, p, Rs] => some (showBool (permContainsMany (parseSeq s) (parseSeq p) (parseShs Rs)))
  | "mcont", [perm, S, p, Rs] =>
    some (showBool (meshContainsMany (parseSeq perm) (parseCells S) (parseSeq p) (parseShs Rs)))
  | "maxmesh", [s, occ] => some (showCells (canonSh (maximalMesh (parseSeq s) (parseSeq occ))))
  | "suff", [kind, L, stop, A, SG] =>
    let A := parseSeqs A
    let K := maxLen A
    let Dk := fun k => if k ≤ K then some (A.filter fun p => p.length == k) else none
    let r := if kind == "good" then sufficeGood (parseDict SG) (stop == "T") Dk (List.range (parseNat L + 1))
             else sufficeBad (parseDict SG) (stop == "T") Dk (List.range (parseNat L + 1))
    some s!"{showBool r.1}:{showSeqs r.2}"
  | "cleanup", [bm, lim, A, SG] =>
    let A := parseSeqs A
    let Bk := fun k => if k ≤ parseNat bm then (Model.permsLex k).filter fun p => !A.contains p else []
    some (showExcept (fun bases =>
        if bases.isEmpty then "none" else
          "&".intercalate ((bases.map fun b => showDict (toSg b)).mergeSort fun x y => !(y < x)))
      (runCleanUp (parseDict SG) Bk (parseNat bm) (parseNat lim)))
  | "automodel", [spec, target] =>
    let ms := parseMeshes spec
    let P : NSeq → Bool := fun σ => ms.all fun m => !Model.containsMesh σ m
    let tA := tabOf (goodOf P)
    let tB := tabOf (badOf P)
    let A := fromTab tA (goodOf P)
    let B := fromTab tB (badOf P)
    let path := autoSearch A B target 64 [.outer 8 4 2 []]
    some (showAuto (autoBisc autoFuel (chOf path) A B))
  | "autoall", [fuel, spec] =>
    -- every result the choices allow within `fuel` loop-body executions (distinct, canonical, sorted)
    let ms := parseMeshes spec
    let P : NSeq → Bool := fun σ => ms.all fun m => !Model.containsMesh σ m
    let tA := tabOf (goodOf P)
    let tB := tabOf (badOf P)
    let rs := (autoBiscAll (parseNat fuel) (fromTab tA (goodOf P)) (fromTab tB (badOf P))).map showAuto
    some ("&".intercalate (dedupAdj (rs.mergeSort fun x y => !(y < x))))
  | "autofirst", [spec] =>
    let ms := parseMeshes spec
    let P : NSeq → Bool := fun σ => ms.all fun m => !Model.containsMesh σ m
    let tA := tabOf (goodOf P)
    let tB := tabOf (badOf P)
    some (showAuto (autoBisc autoFuel (fun _ _ _ => 0) (fromTab tA (goodOf P)) (fromTab tB (badOf P))))
  | _, _ => none

end Driver.C17
