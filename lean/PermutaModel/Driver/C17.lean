import PermutaModel.Model.C17
import PermutaModel.Spec.C17
open Proto

namespace Driver.C17
open Model.C17

/-! canonical printing: cells, shadings, patterns and levels sorted (Python: `sorted`) -/
def cellLe (a b : Cell) : Bool := a.1 < b.1 || (a.1 == b.1 && a.2 ≤ b.2)

def cellsLe : List Cell → List Cell → Bool
  | [], _ => true
  | _ :: _, [] => false
  | a :: as, b :: bs => if a == b then cellsLe as bs else cellLe a b

def seqLe : List Nat → List Nat → Bool
  | [], _ => true
  | _ :: _, [] => false
  | a :: as, b :: bs => if a == b then seqLe as bs else a < b

def dedupAdj {α} [BEq α] : List α → List α
  | [] => []
  | [a] => [a]
  | a :: b :: t => if a == b then dedupAdj (b :: t) else a :: dedupAdj (b :: t)

def canonSh (s : Shading) : Shading := dedupAdj (s.mergeSort cellLe)

def showShs (Rs : List Shading) : String :=
  if Rs.isEmpty then "-" else "+".intercalate (((Rs.map canonSh).mergeSort cellsLe).map showCells)

def showLevel (lv : Level) : String :=
  if lv.isEmpty then "-" else
    ";".intercalate ((lv.mergeSort fun a b => seqLe a.1 b.1).map fun e => s!"{showSeq e.1}/{showShs e.2}")

def showDict (d : PattDict) : String :=
  if d.isEmpty then "-" else
    "|".intercalate ((d.mergeSort fun a b => a.1 ≤ b.1).map fun lv => s!"{lv.1}:{showLevel lv.2}")

def parseShs (s : String) : List Shading :=
  if s == "-" then [] else (s.splitOn "+").map parseCells

def parseLevel (s : String) : Level :=
  if s == "-" then [] else (s.splitOn ";").filterMap fun t =>
    match t.splitOn "/" with
    | [p, r] => some (parseSeq p, parseShs r)
    | _ => none

def parseDict (s : String) : PattDict :=
  if s == "-" then [] else (s.splitOn "|").filterMap fun t =>
    match t.splitOn ":" with
    | [k, l] => some (parseNat k, parseLevel l)
    | _ => none

def parseRep (s : String) : Option Rep :=
  if s == "list" then some .list else if s == "dict" then some .dict
  else if s == "pred" then some .pred else none

def parseOptNat (s : String) : Option Nat := if s == "N" then none else some (parseNat s)

def handle (op : String) (a : List String) : Option String :=
  match op, a with
  | "bisc", ["tuple", _, _, _] => some Err.assertion.show     -- bisc.py:39-46 `assert False`
  | "bisc", [rep, m, n, A] =>
    (parseRep rep).map fun r =>
      showExcept showDict (bisc r (parseSeqs A) (parseNat m) (parseOptNat n))
  | "mine", [m, n, A] =>
    let r := mine (mkD .list (parseSeqs A) (parseNat n)) (parseNat m) (parseNat n)
    some s!"{showSeq r.1}#{showDict ((List.range r.2.length).zip r.2)}"
  | "judge", [m, n, A, SG] =>
    let ms := meshesOf (parseDict SG)
    let A := parseSeqs A
    some (showBool (Spec.C17.soundB A (parseNat n) ms) ++ showBool (Spec.C17.completeB A (parseNat m) ms)
      ++ showBool (Spec.C17.irredundantB A (parseNat n) ms))
  | "pcont", [s, p, Rs] => some (showBool (permContainsMany (parseSeq s) (parseSeq p) (parseShs Rs)))
  | "mcont", [perm, S, p, Rs] =>
    some (showBool (meshContainsMany (parseSeq perm) (parseCells S) (parseSeq p) (parseShs Rs)))
  | "maxmesh", [s, occ] => some (showCells (canonSh (maximalMesh (parseSeq s) (parseSeq occ))))
  | "suff", [kind, L, stop, A, SG] =>
    let A := parseSeqs A
    let K := maxLen A
    let Dk := fun k => if k ≤ K then some (A.filter fun p => p.length == k) else none
    let r := if kind == "good" then sufficeGood (parseDict SG) (stop == "T") Dk (List.range (parseNat L + 1))
             else sufficeBad (parseDict SG) (stop == "T") Dk (List.range (parseNat L + 1))
    some s!"{showBool r.1}:{showSeqs r.2}"
  | "cleanup", [bm, lim, A, SG] =>
    let A := parseSeqs A
    let Bk := fun k => if k ≤ parseNat bm then (Model.permsLex k).filter fun p => !A.contains p else []
    some (showExcept (fun bases =>
        if bases.isEmpty then "none" else
          "&".intercalate ((bases.map fun b => showDict (toSg b)).mergeSort fun x y => !(y < x)))
      (runCleanUp (parseDict SG) Bk (parseNat bm) (parseNat lim)))
  | _, _ => none

end Driver.C17
