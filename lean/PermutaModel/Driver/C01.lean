import PermutaModel.Model.C01Deque
open Proto

namespace Driver.C01

def handle (op : String) (a : List String) : Option String :=
  match op, a with
  | "occ", [p, s] => some (showSeqs (Model.occurrencesIn (parseSeq p) (parseSeq s)))
  | "occof", [p, s] => some (showSeqs (Model.occurrencesIn (parseSeq p) (parseSeq s)))
  | "occspec", [p, s] => some (showSeqs (Spec.occurrences (parseSeq p) (parseSeq s)))
  | "occc", [p, s, cp, cs] =>
      some (showSeqs (Model.occurrencesInC (parseSeq p) (parseSeq s) (parseSeq cp) (parseSeq cs)))
  | "contains", [s, ps] => some (showBool (Model.containsAll (parseSeq s) (parseSeqs ps)))
  | "avoidsset", [s, ps] => some (showBool (Model.avoidsAll (parseSeq s) (parseSeqs ps)))
  | "in", [p, s] => some (showBool (Model.containsOne (parseSeq s) (parseSeq p)))
  | "countof", [p, s] => some (toString (Model.countOcc (parseSeq p) (parseSeq s)))
  | "hist", [p, ss] =>
      some ("|".intercalate ((parseSeqs ss).flatMap fun s =>
        [showSeqs (Model.occurrencesIn (parseSeq p) s), showBool (Model.containsOne s (parseSeq p))]))
  | "lazy", [p, s1, _j, s2] =>
      -- a listing interrupted after `_j` items by a complete search with the same pattern object
      some (showSeqs (Model.occurrencesIn (parseSeq p) (parseSeq s1)) ++ "|" ++
            showSeqs (Model.occurrencesIn (parseSeq p) (parseSeq s2)) ++ "|" ++
            showBool (Model.containsOne (parseSeq s2) (parseSeq p)))
  | "badarg", [_, _] => some Err.typeError.show
  | "avoids", [s, ps] => some (showBool (Model.avoidsAll (parseSeq s) (parseSeqs ps)))
  | "containedin", [p, ss] => some (showBool (Model.containedIn (parseSeq p) (parseSeqs ss)))
  | "avoidedby", [p, ss] => some (showBool (Model.avoidedBy (parseSeq p) (parseSeqs ss)))
  | "count", [p, s] => some (toString (Model.countOcc (parseSeq p) (parseSeq s)))
  | "lfc", [p] =>
      -- the literal deque algorithm; `NONTERM` = a `while` loop would spin forever (proved impossible)
      some (match Model.lfcDeque (parseSeq p) with
        | none => "NONTERM"
        | some l => ";".intercalate (l.map fun x => s!"{x.1},{x.2}"))
  | "lfcspec", [p] =>
      some (";".intercalate ((Model.lfcOut (parseSeq p)).map fun x => s!"{x.1},{x.2}"))
  | "occdq", [p, s] =>
      -- deque generator -> `_pattern_details` -> search (the code-shaped pipeline)
      some (match Model.occurrencesInDeque (parseSeq p) (parseSeq s) with
        | none => "NONTERM"
        | some l => showSeqs l)
  | "occcspec", [p, s, cp, cs] =>
      some (showSeqs (Spec.occurrencesC (parseSeq p) (parseSeq s) (parseSeq cp) (parseSeq cs)))
  | _, _ => none

end Driver.C01
