import PermutaModel.Model.C15
open Proto

namespace Driver.C15
open Model.C15

def hexDigit (n : Nat) : Char := "0123456789abcdef".toList.getD n '?'

/-- four bits per hex digit, most significant first, zero padded at the end -/
def bitsToHex : List Bool → List Char
  | [] => []
  | b0 :: b1 :: b2 :: b3 :: t =>
    hexDigit ((if b0 then 8 else 0) + (if b1 then 4 else 0) + (if b2 then 2 else 0) + (if b3 then 1 else 0)) :: bitsToHex t
  | l => [hexDigit ((if l.getD 0 false then 8 else 0) + (if l.getD 1 false then 4 else 0) + (if l.getD 2 false then 2 else 0))]

def showBits (l : List Bool) : String := s!"{l.length}:" ++ String.ofList (bitsToHex l)

def showWords (ws : List Word) : String :=
  if ws.isEmpty then "-" else ";".intercalate (ws.map showWord)

def validPin (u : Word) : Bool := u.all fun c => DIRS.contains c || QUADS.contains c

def sortWords (ws : List Word) : List Word := ws.mergeSort wordLe

/-- `has_finite_pinperms`; the difference automaton must carry the certificate under which the
    finiteness test is proved exact -/
def finpin (B : List NSeq) : String :=
  let d := diffWithM (dfaForBasis B)
  if d.certB then showBool (isFiniteB d) else "ERR:model-automaton-without-certificate"

def handle (op : String) (a : List String) : Option String :=
  match op, a with
  | "pws", [p] => some (showWords (sortWords (permToPinwords (parseSeq p))))
  | "decode", [u] => some (showExcept showSeq (pinwordToPerm (parseWord u)))
  | "factor", [u] => some (showWords (factorPinword (parseWord u)))
  | "sptom", [u] => some (showWords (spToM (parseWord u)))
  | "mtosp", [w] => some (match mToSp (parseWord w) with | some r => showWord r | none => Err.keyError.show)
  | "strict", [u] => some (showBool (isStrict (parseWord u)))
  | "nfa", [u, w] =>
      if validPin (parseWord u) then some (showBool (pinwordAccepts (parseWord u) (parseWord w)))
      else some "ERR:InvalidSymbolError"
  | "nfabits", [u, x, d] => some (showBits (accBits [parseWord u] (parseWord x) (parseNat d)))
  | "mdfa", [w] => some (showBool (dfaMAccepts (parseWord w)))
  | "mbits", [d] => some (showBits ((trieWords (parseNat d) []).map dfaMAccepts))
  | "acc", [b, w] => some (showBool (basisAccepts (parseSeqs b) (parseWord w)))
  | "accbits", [b, x, d] => some (showBits (accBits (pinwordsForBasis (parseSeqs b)) (parseWord x) (parseNat d)))
  | "accbitsd", [b, x, d] =>
      let dfa := dfaForBasis (parseSeqs b)
      some (showBits ((trieWords (parseNat d) (parseWord x)).map dfa.accepts))
  | "sembits", [b, l] =>
      let dfa := dfaForBasis (parseSeqs b)
      some (showBits (((mTrieWords (parseNat l) []).filter fun w => decide (w.length ≥ 2)).map dfa.accepts))
  | "accs", [b, ws] =>
      let us := pinwordsForBasis (parseSeqs b)
      some (showBits ((ws.splitOn ";").map fun w => wordsAccept us (parseWord w)))
  | "finpin", [b] => some (finpin (parseSeqs b))
  | "finpindfa", [b] => some (finpin (parseSeqs b))
  | "finpindb", [b] => some (finpin (parseSeqs b))
  | "canon", [b] => some (dfaForBasis (parseSeqs b)).show
  | "canondb", [b] => some (dfaForBasis (parseSeqs b)).show
  | "dbcanon", [p] => some (dfaForPerm (parseSeq p)).show
  | "mcanon", [] => some (minimize dfaM).show
  | _, _ => none

end Driver.C15
