import PermutaModel.Model.C06
import PermutaModel.Driver.C03
open Proto

namespace Driver.C06

def showSub (m : Mesh) : String := s!"{showSeq m.pattern}/{Driver.C03.showShading m}"

def with2 (a b : Except Err Mesh) (f : Mesh → Mesh → String) : String :=
  match a, b with
  | .ok x, .ok y => f x y
  | .error e, _ => e.show
  | _, .error e => e.show

/-- targets of `contained_in` / `avoided_by`: `p1/c1;p2/c2;…` (`-` = none) -/
def parseMeshes (s : String) : Option (List Mesh) :=
  if s == "-" then some [] else
  (s.splitOn ";").mapM fun t => match t.splitOn "/" with
    | [p, c] => match Model.mkMesh (parseSeq p) (parseCells c) with
      | .ok m => some m | .error _ => none
    | _ => none

def handle (op : String) (a : List String) : Option String :=
  match op, a with
  | "submesh", [p, c, idx] =>
      some (Driver.C03.withMesh (Model.mkMesh (parseSeq p) (parseCells c)) fun m =>
        showExcept showSub (Model.subMeshPattern m (parseSeq idx)))
  | "submeshS", [p, c, idx] =>
      some (Driver.C03.withMesh (Model.mkMesh (parseSeq p) (parseCells c)) fun m =>
        showExcept showSub (Model.subMeshPattern m (parseSeq idx)))
  | "isshaded1", [p, c, x, y] =>
      some (Driver.C03.withMesh (Model.mkMesh (parseSeq p) (parseCells c)) fun m =>
        showExcept showBool (Model.isShadedCell m (parseNat x) (parseNat y)))
  | "isshaded", [p, c, l, b, r, t] =>
      some (Driver.C03.withMesh (Model.mkMesh (parseSeq p) (parseCells c)) fun m =>
        showExcept showBool (Model.isShadedRect m (parseNat l) (parseNat b) (parseNat r) (parseNat t)))
  | "ispointfree", [p, c, l, b, r, t] =>
      some (Driver.C03.withMesh (Model.mkMesh (parseSeq p) (parseCells c)) fun m =>
        showExcept showBool (Model.isPointfree m (parseNat l) (parseNat b) (parseNat r) (parseNat t)))
  | "meshin", [p, c, q, d] =>
      some (with2 (Model.mkMesh (parseSeq p) (parseCells c)) (Model.mkMesh (parseSeq q) (parseCells d))
        fun ν μ => showExcept showSeqs (Model.meshOccurrencesIn ν (.mesh μ)))
  | "meshinS", [p, c, q, d] =>
      some (with2 (Model.mkMesh (parseSeq p) (parseCells c)) (Model.mkMesh (parseSeq q) (parseCells d))
        fun ν μ => showExcept showSeqs (Model.meshOccurrencesIn ν (.mesh μ)))
  | "meshinS6", [p, c, q, d] =>
      some (with2 (Model.mkMesh (parseSeq p) (parseCells c)) (Model.mkMesh (parseSeq q) (parseCells d))
        fun ν μ => showExcept showSeqs (Model.meshOccurrencesIn ν (.mesh μ)))
  | "permin", [p, q, d] =>
      some (Driver.C03.withMesh (Model.mkMesh (parseSeq q) (parseCells d)) fun μ =>
        showSeqs (Model.occurrencesIn (parseSeq p) μ.pattern))
  | "mmcontains", [q, d, its] =>
      (Driver.C03.parseItems its).map fun l =>
        Driver.C03.withMesh (Model.mkMesh (parseSeq q) (parseCells d)) fun μ =>
          showExcept showBool (Model.meshContainsAll μ l)
  | "mmavoids", [q, d, its] =>
      (Driver.C03.parseItems its).map fun l =>
        Driver.C03.withMesh (Model.mkMesh (parseSeq q) (parseCells d)) fun μ =>
          showExcept showBool (Model.meshAvoidsAll μ l)
  | "mmcontainedin", [it, ms] =>
      match Driver.C03.parseItem it, parseMeshes ms with
      | some i, some l => some (showExcept showBool (Model.containedInMeshes i l))
      | _, _ => none
  | "mmavoidedby", [it, ms] =>
      match Driver.C03.parseItem it, parseMeshes ms with
      | some i, some l => some (showExcept showBool (Model.avoidedByMeshes i l))
      | _, _ => none
  | _, _ => none

end Driver.C06
