import PermutaModel.Model.C07
import PermutaModel.Driver.C02
open Proto Model Model.C02 Model.C07

namespace Driver.C07

def mkObj (basis : String) : Option AvObj :=
  match Driver.C02.newFromBasisString Proc.init "a" basis with
  | .ok s => (s.obj? "a").map (·.2)
  | .error _ => none

/-- a query token: kind letter followed by its argument (`C3`, `L4`, `U2`, `I0,2,1`) -/
def parseQuery (q : String) : String × String := ((q.take 1).toString, (q.drop 1).toString)

def queryTodo (q : String) : List Nat :=
  let (k, a) := parseQuery q
  if k == "I" then [(parseSeq a).length] else queryLevels k (parseNat a)

def render (q : String) (t : Thread) : String :=
  match t.phase with
  | .failed e => e.show
  | _ =>
    let (k, a) := parseQuery q
    if t.todo != [] || t.got.length != (queryTodo q).length then "UNFINISHED"
    else if k == "C" then toString ((t.got.getLastD (0, [])).2.length)
    else if k == "I" then showBool ((t.got.getLastD (0, [])).2.contains (parseSeq a))
    else Driver.C02.canonFull (t.got.flatMap (·.2))

def keysOf (o : AvObj) : String :=
  "/".intercalate (o.cache.map fun l => showSeqs (Driver.C02.sortRun l.keys))

/-! ## replay of an observed run

The harness records, in the global order in which they happened under its deterministic scheduler, the
lock events of every thread and the growth of the shared cache:

* `e<t>`  thread `t` entered `with LOCK` (it is committed to the locked path from here on),
* `<t>`   thread `t` acquired the lock (plain number, as in the older acquisition-order format),
* `w<t>`  the shared cache got one level longer while `t` was running,
* `r<t>`  thread `t` released the lock,
* `d<t>`  thread `t` returned from its query.

The model is driven through the same events with the discipline generated from the source
(`sourceDisc`): each event lets thread `t` take steps of `Model.C07.step` until the corresponding model
state is reached (bounded fuel; a thread that cannot get there — e.g. a query that found its level in the
cache and never took the lock contributes no `e`/acquire/`r` events at all — is simply advanced by its
later events).  Every replay is a run `Model.C07.run sourceDisc s0 sched` for some schedule `sched`, so the
theorems of `Props/C07.lean` apply to it; lock-free reads are performed lazily, at the next event of the
reading thread, which is sound because the cache only grows (`C07.cache_never_shrinks`). -/

inductive Ev where
  | enter (t : Nat) | acq (t : Nat) | grow (t : Nat) | rel (t : Nat) | done (t : Nat)

def parseEv (tok : String) : Option Ev :=
  let k := (tok.take 1).toString
  let r := (tok.drop 1).toString
  if k == "e" then some (.enter (parseNat r))
  else if k == "w" then some (.grow (parseNat r))
  else if k == "r" then some (.rel (parseNat r))
  else if k == "d" then some (.done (parseNat r))
  else if tok.isEmpty || tok == "_" then none
  else some (.acq (parseNat tok))

/-- thread `t` takes steps until `stop` holds (at most `fuel` steps) -/
def advance (d : Disc) (stop : Sys → Bool) : Nat → Sys → Nat → Sys
  | 0, s, _ => s
  | k+1, s, t => if stop s then s else advance d stop k (step d s t) t

def isHolding (s : Sys) (t : Nat) : Bool :=
  match s.threads[t]? with
  | some th => (match th.phase with | .holding _ _ => true | _ => false)
  | none => false

def isCommitted (s : Sys) (t : Nat) : Bool :=
  match s.threads[t]? with
  | some th => (match th.phase with | .holding _ _ => true | .waiting _ => true | _ => false)
  | none => false

def isDone (s : Sys) (t : Nat) : Bool :=
  match s.threads[t]? with
  | some th => (match th.phase with | .idle => th.todo.isEmpty | .failed _ => true | _ => false)
  | none => true

def fuel : Nat := 64

def replayEv (d : Disc) (s : Sys) : Ev → Sys
  | .enter t => if d.fast then advance d (fun s' => isCommitted s' t || isDone s' t) fuel s t else s
  | .acq t => advance d (fun s' => isHolding s' t || isDone s' t) fuel s t
  | .grow t =>
    if isHolding s t then
      advance d (fun s' => !isHolding s' t || s'.obj.cache.length > s.obj.cache.length) fuel s t
    else s
  | .rel t => advance d (fun s' => !isHolding s' t) fuel s t
  | .done t => advance d (fun s' => isDone s' t) fuel s t

def replay (d : Disc) (s : Sys) (evs : List Ev) : Sys := evs.foldl (replayEv d) s

/-- diagnostic only: how many observed events found the model in the corresponding state (acquire: the thread
    holds the lock afterwards; release: it held it before; `w`: the model cache grew by exactly one level;
    `e`: the thread is committed to the locked path; `d`: the thread is finished) -/
def syncEv (d : Disc) (acc : Sys × Nat × Nat) (e : Ev) : Sys × Nat × Nat :=
  let s := acc.1
  let s' := replayEv d s e
  let good : Bool :=
    match e with
    | .acq t => isHolding s' t
    | .done t => isDone s' t
    | .rel t => isHolding s t
    | .enter t => !d.fast || isCommitted s' t
    | .grow _ => s'.obj.cache.length == s.obj.cache.length + 1
  (s', acc.2.1 + (if good then 1 else 0), acc.2.2 + 1)

/-- number of fair rounds after which every thread is finished, from any reachable state
    (`C07.fair_progress` with `C07L.totalCost`: `2n+5` per requested level covers both disciplines) -/
def flushRounds (todos : List (List Nat)) : Nat := (todos.map fun td => (td.map fun n => 2 * n + 5).sum).sum

def handle (op : String) (a : List String) : Option String :=
  match op, a with
  | "conc", [basis, queries, acq, _meta] =>
    match mkObj basis with
    | none => some "ERR:ValueError"
    | some o =>
      let qs := queries.splitOn ";"
      let todos := qs.map queryTodo
      let s0 := initSys o todos
      let toks := if acq == "_" then [] else acq.splitOn ","
      let flush := (List.range (flushRounds todos)).flatMap (fun _ => List.range qs.length)
      let s :=
        if toks.all (fun tok => (tok.take 1).toString != "e" && (tok.take 1).toString != "w"
            && (tok.take 1).toString != "r" && (tok.take 1).toString != "d") then
          -- older line format: the bare order of lock acquisitions
          run sourceDisc s0 (scheduleOfAcq (parseSeq acq) 400 ++ flush)
        else
          run sourceDisc (replay sourceDisc s0 (toks.filterMap parseEv)) flush
      let keys := if _meta.endsWith ":0" then "*" else keysOf s.obj
      some ("|".intercalate ((qs.zip s.threads).map fun qt => render qt.1 qt.2) ++ "#" ++ keys)
  | "concsync", [basis, queries, acq, _meta] =>
    match mkObj basis with
    | none => some "ERR:ValueError"
    | some o =>
      let qs := queries.splitOn ";"
      let toks := if acq == "_" then [] else acq.splitOn ","
      let r := (toks.filterMap parseEv).foldl (syncEv sourceDisc) (initSys o (qs.map queryTodo), 0, 0)
      some (toString r.2.1 ++ "/" ++ toString r.2.2)
  | "concnolock", [basis, queries, sched] =>
    match mkObj basis with
    | none => some "ERR:ValueError"
    | some o =>
      let qs := queries.splitOn ";"
      let s := runNoLock sourceDisc (initSys o (qs.map queryTodo)) (parseSeq sched)
      some ("|".intercalate ((qs.zip s.threads).map fun qt => render qt.1 qt.2) ++ "#" ++ keysOf s.obj)
  | _, _ => none

end Driver.C07
