import PermutaModel.Model.C07
import PermutaModel.Driver.C02
open Proto Model Model.C02 Model.C07

namespace Driver.C07

def mkObj (basis : String) : Option AvObj :=
  match Driver.C02.newFromBasisString Proc.init "a" basis with
  | .ok s => (s.obj? "a").map (·.2)
  | .error _ => none

/-- a query token: kind letter followed by its argument (`C3`, `L4`, `U2`, `I0,2,1`) -/
def parseQuery (q : String) : String × String := ((q.take 1).toString, (q.drop 1).toString)

def queryTodo (q : String) : List Nat :=
  let (k, a) := parseQuery q
  if k == "I" then [(parseSeq a).length] else queryLevels k (parseNat a)

def render (q : String) (t : Thread) : String :=
  match t.phase with
  | .failed e => e.show
  | _ =>
    let (k, a) := parseQuery q
    if t.todo != [] || t.got.length != (queryTodo q).length then "UNFINISHED"
    else if k == "C" then toString ((t.got.getLastD (0, [])).2.length)
    else if k == "I" then showBool ((t.got.getLastD (0, [])).2.contains (parseSeq a))
    else Driver.C02.canonFull (t.got.flatMap (·.2))

def keysOf (o : AvObj) : String :=
  "/".intercalate (o.cache.map fun l => showSeqs (Driver.C02.sortRun l.keys))

def handle (op : String) (a : List String) : Option String :=
  match op, a with
  | "conc", [basis, queries, acq, _meta] =>
    match mkObj basis with
    | none => some "ERR:ValueError"
    | some o =>
      let qs := queries.splitOn ";"
      let s0 := initSys o (qs.map queryTodo)
      let sched := scheduleOfAcq (parseSeq acq) 400 ++
        (List.range 50).flatMap (fun _ => List.range qs.length)
      let s := run s0 sched
      let keys := if _meta.endsWith ":0" then "*" else keysOf s.obj
      some ("|".intercalate ((qs.zip s.threads).map fun qt => render qt.1 qt.2) ++ "#" ++ keys)
  | "concnolock", [basis, queries, sched] =>
    match mkObj basis with
    | none => some "ERR:ValueError"
    | some o =>
      let qs := queries.splitOn ";"
      let s := runNoLock (initSys o (qs.map queryTodo)) (parseSeq sched)
      some ("|".intercalate ((qs.zip s.threads).map fun qt => render qt.1 qt.2) ++ "#" ++ keysOf s.obj)
  | _, _ => none

end Driver.C07
