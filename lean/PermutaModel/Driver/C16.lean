import PermutaModel.Model.C16
open Proto

namespace Driver.C16
open Model.C15 Model.C16

def pb (s : String) : Bool := s == "T"

/-- `hfs B u c d`: `has_finite_simples(B, use_db=u, check_all=c, dfa=(automaton of B if d))` -/
def handle (op : String) (a : List String) : Option String :=
  match op, a with
  | "alt", [b] => some (showBool (hasFiniteAlternations (parseSeqs b)))
  | "w1", [b] => some (showBool (hasFiniteWedges1 (parseSeqs b)))
  | "w2", [b] => some (showBool (hasFiniteWedges2 (parseSeqs b)))
  | "special", [b] => some (showBool (hasFiniteSpecialSimples (parseSeqs b)))
  | "hfs", [b, u, c, d] =>
      let B := parseSeqs b
      some (showBool (hasFiniteSimples B (pb u) (pb c) (if pb d then some (dfaForBasis B) else none)))
  | "av", [b, poly] => some (showExcept showBool (avHasFinitelyManySimples (parseSeqs b) (pb poly)))
  | "strat", [b] => some (showBool (strategyApplies (parseSeqs b)))
  | "cli", [s, poly] => some (showExcept id (cliSimple s (pb poly)))
  | "basis", [b] => some (showSeqs (basisOf (parseSeqs b)))
  | "symsets", [b] =>
      let strs := (symSets (parseSeqs b)).map fun s => showSeqs (s.mergeSort Model.permLe)
      some ("|".intercalate (strs.eraseDups.mergeSort fun x y => decide (x ≤ y)))
  | _, _ => none

end Driver.C16
