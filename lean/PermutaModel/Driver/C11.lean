import PermutaModel.Model.C11Tools
import PermutaModel.Generated.Tables
import PermutaModel.Spec.C11
open Proto

namespace Driver.C11
open Model.Stat

def showOpt {α : Type} (f : α → String) : Option α → String
  | some a => f a
  | none => "DIVERGES"

def showPairs (l : List (Nat × Nat)) : String := showCells l
def showRuns (r : Nat × List Nat) : String := s!"{r.1}|{showSeq r.2}"
def showPats (l : List (NSeq × Nat)) : String :=
  if l.isEmpty then "-" else ";".intercalate (l.map fun x => s!"{showSeq x.1}:{x.2}")
def showNames (l : List String) : String := if l.isEmpty then "-" else ";".intercalate l

def nat (n : Nat) : String := toString n
def int (z : Int) : String := toString z

/-- a `Perm` method without extra argument -/
def perm0 (f : String) (p : NSeq) : Option String :=
  match f with
  | "fixed_points" => some (showSeq (fixedPoints p))
  | "count_fixed_points" => some (nat (countFixedPoints p))
  | "strong_fixed_points" => some (showSeq (strongFixedPoints p))
  | "descents" => some (showSeq (descents p))
  | "descent_set" => some (showSeq (descents p))
  | "count_descents" => some (nat (countDescents p))
  | "ascents" => some (showSeq (ascents p))
  | "ascent_set" => some (showSeq (ascents p))
  | "count_ascents" => some (nat (countAscents p))
  | "peaks" => some (showSeq (peaks p))
  | "peak_list" => some (showSeq (peaks p))
  | "count_peaks" => some (nat (countPeaks p))
  | "pinnacles" => some (showSeq (pinnacles p))
  | "pinnacle_set" => some (showSeq (pinnacles p))
  | "valleys" => some (showSeq (valleys p))
  | "valley_list" => some (showSeq (valleys p))
  | "count_valleys" => some (nat (countValleys p))
  | "bends" => some (showSeq (bends p))
  | "bend_list" => some (showSeq (bends p))
  | "count_column_sum_primes" => some (nat (countColumnSumPrimes p))
  | "order" => some (showOpt nat (order p))
  | "ltrmin" => some (showSeq (ltrmin p))
  | "rtlmin" => some (showSeq (rtlmin p))
  | "ltrmax" => some (showSeq (ltrmax p))
  | "rtlmax" => some (showSeq (rtlmax p))
  | "count_ltrmin" => some (nat (countLtrmin p))
  | "count_ltrmax" => some (nat (countLtrmax p))
  | "count_rtlmin" => some (nat (countRtlmin p))
  | "count_rtlmax" => some (nat (countRtlmax p))
  | "count_inversions" => some (nat (countInversions p))
  | "count_bounces" => some (showOpt int (countBounces p))
  | "max_drop_size" => some (int (maxDropSize p))
  | "holeyness" => some (int (holeyness p))
  | "count_stack_sorts" => some (showOpt nat (countStackSorts p))
  | "count_pop_stack_sorts" => some (showOpt nat (countPopStackSorts p))
  | "cyclic_peaks" => some (showSeq (cyclicPeaks p))
  | "cyclic_peaks_list" => some (showSeq (cyclicPeaks p))
  | "count_cyclic_peaks" => some (nat (countCyclicPeaks p))
  | "cyclic_valleys" => some (showSeq (cyclicValleys p))
  | "cyclic_valleys_list" => some (showSeq (cyclicValleys p))
  | "count_cyclic_valleys" => some (nat (countCyclicValleys p))
  | "double_excedance" => some (showSeq (doubleExcedance p))
  | "double_excedance_list" => some (showSeq (doubleExcedance p))
  | "count_double_excedance" => some (nat (countDoubleExcedance p))
  | "double_drops" => some (showSeq (doubleDrops p))
  | "double_drops_list" => some (showSeq (doubleDrops p))
  | "count_double_drops" => some (nat (countDoubleDrops p))
  | "foremaxima" => some (showSeq (foremaxima p))
  | "count_foremaxima" => some (nat (countForemaxima p))
  | "afterminima" => some (showSeq (afterminima p))
  | "count_afterminima" => some (nat (countAfterminima p))
  | "aftermaxima" => some (showSeq (aftermaxima p))
  | "count_aftermaxima" => some (nat (countAftermaxima p))
  | "foreminima" => some (showSeq (foreminima p))
  | "count_foreminima" => some (nat (countForeminima p))
  | "inversions" => some (showPairs (inversions p))
  | "non_inversions" => some (showPairs (nonInversions p))
  | "count_non_inversions" => some (int (countNonInversions p))
  | "min_gapsize" => some (showExcept nat (minGapsize p))
  | "all_bonds" => some (showSeq (allBonds p))
  | "count_bonds" => some (nat (countBonds p))
  | "inc_bonds" => some (showSeq (incBonds p))
  | "count_inc_bonds" => some (nat (countIncBonds p))
  | "dec_bonds" => some (showSeq (decBonds p))
  | "count_dec_bonds" => some (nat (countDecBonds p))
  | "major_index" => some (nat (majorIndex p))
  | "depth" => some (nat (depth p))
  | "maximal_decreasing_run" => some (int (maximalDecreasingRun p))
  | "longestruns_ascending" => some (showRuns (longestrunsAscending p))
  | "longestruns_descending" => some (showRuns (longestrunsDescending p))
  | "length_of_longestrun_ascending" => some (nat (lengthOfLongestrunAscending p))
  | "length_of_longestrun_descending" => some (nat (lengthOfLongestrunDescending p))
  | "length_of_longest_increasing_subsequence" => some (nat (lengthOfLongestIncreasingSubsequence p))
  | "length_of_longest_decreasing_subsequence" => some (nat (lengthOfLongestDecreasingSubsequence p))
  | "cycle_decomp" => some (showOpt showSeqs (cycleDecomp p))
  | "count_cycles" => some (showOpt nat (countCycles p))
  | "cycle_notation" => some (showOpt id (cycleNotation p))
  | "is_involution" => some (showBool (isInvolution p))
  | "threepats" => some (showPats (kpats 3 p))
  | "fourpats" => some (showPats (kpats 4 p))
  | "rank_encoding" => some (showSeq (rankEncoding p))
  | "rtlmax_ltrmin_decomposition" => some (showOpt showSeqs (rtlmaxLtrminDecomposition p))
  | "count_rtlmax_ltrmin_layers" => some (showOpt nat (countRtlmaxLtrminLayers p))
  | "stack_sort" => some (showSeq (stackSort p))
  | "pop_stack_sort" => some (showSeq (popStackSort p))
  | _ => none

/-- methods with a `step_size` argument (an integer) -/
def permStep (f : String) (p : NSeq) (k : Int) : Option String :=
  match f with
  | "descents" => some (showExcept showSeq (descentsStep p k))
  | "descent_set" => some (showExcept showSeq (descentsStep p k))
  | "count_descents" => some (showExcept nat (countDescentsStep p k))
  | "ascents" => some (showExcept showSeq (ascentsStep p k))
  | "ascent_set" => some (showExcept showSeq (ascentsStep p k))
  | "count_ascents" => some (showExcept nat (countAscentsStep p k))
  | _ => none

/-- the specification of a listing / non-table quantity, by the method's name -/
def specListing (f : String) (σ : NSeq) : Option String :=
  match f with
  | "fixed_points" => some (showSeq (Spec.Stat.fixedPoints σ))
  | "strong_fixed_points" => some (showSeq (Spec.Stat.strongFixedPoints σ))
  | "descents" => some (showSeq (Spec.Stat.descents σ))
  | "ascents" => some (showSeq (Spec.Stat.ascents σ))
  | "peaks" => some (showSeq (Spec.Stat.peaks σ))
  | "valleys" => some (showSeq (Spec.Stat.valleys σ))
  | "pinnacles" => some (showSeq (Spec.Stat.pinnacles σ))
  | "bends" => some (showSeq (Spec.Stat.bends σ))
  | "ltrmin" => some (showSeq (Spec.Stat.ltrmin σ))
  | "ltrmax" => some (showSeq (Spec.Stat.ltrmax σ))
  | "rtlmin" => some (showSeq (Spec.Stat.rtlmin σ))
  | "rtlmax" => some (showSeq (Spec.Stat.rtlmax σ))
  | "inversions" => some (showPairs (Spec.Stat.inversions σ))
  | "non_inversions" => some (showPairs (Spec.Stat.nonInversions σ))
  | "all_bonds" => some (showSeq (Spec.Stat.bonds σ))
  | "inc_bonds" => some (showSeq (Spec.Stat.incBonds σ))
  | "dec_bonds" => some (showSeq (Spec.Stat.decBonds σ))
  | "cyclic_peaks" => some (showSeq (Spec.Stat.cyclicPeaks σ))
  | "cyclic_valleys" => some (showSeq (Spec.Stat.cyclicValleys σ))
  | "double_excedance" => some (showSeq (Spec.Stat.doubleExcedances σ))
  | "double_drops" => some (showSeq (Spec.Stat.doubleDrops σ))
  | "foremaxima" => some (showSeq (Spec.Stat.foremaxima σ))
  | "afterminima" => some (showSeq (Spec.Stat.afterminima σ))
  | "aftermaxima" => some (showSeq (Spec.Stat.aftermaxima σ))
  | "foreminima" => some (showSeq (Spec.Stat.foreminima σ))
  | "rank_encoding" => some (showSeq (Spec.Stat.rankEncoding σ))
  | "cycle_decomp" => some (showSeqs (Spec.Stat.cycles σ))
  | "is_involution" => some (showBool (Spec.Stat.isInvolution σ))
  | "longestruns_ascending" => some (showRuns (Spec.Stat.longestRun Spec.Stat.ascendingRun σ))
  | "longestruns_descending" => some (showRuns (Spec.Stat.longestRun Spec.Stat.descendingRun σ))
  | "maximal_decreasing_run" => some (nat (Spec.Stat.maximalDecreasingRun σ))
  | "rtlmax_ltrmin_decomposition" => some (showSeqs (Spec.Stat.rtlmaxLtrminLayers σ))
  | _ => none

def parseBasis (s : String) : Option (List NSeq) := if s == "*" then none else some (parseSeqs s)

/-- `k>v;k>v`, empty `-` -/
def parseBij (s : String) : Bij :=
  if s == "-" then [] else
    (s.splitOn ";").filterMap fun t =>
      match t.splitOn ">" with
      | [k, v] => some (parseSeq k, parseSeq v)
      | _ => none

def table : List Entry := Generated.statTable

def showTransf (l : List (String × List String)) : String :=
  if l.isEmpty then "-" else "|".intercalate (l.map fun x => x.1 ++ "=>" ++ ";".intercalate x.2)

def handle (op : String) (a : List String) : Option String :=
  match op, a with
  | "pf", [f, p] => perm0 f (parseSeq p)
  | "pfm", [f, p] => perm0 f (parseSeq p)
  | "pf", [f, p, k] => if k == "N" then perm0 f (parseSeq p) else permStep f (parseSeq p) (parseInt k)
  | "pfm", [f, p, k] => if k == "N" then perm0 f (parseSeq p) else permStep f (parseSeq p) (parseInt k)
  | "isprime", [z] => some (showBool (isPrimeZ (parseInt z)))
  | "statname", [i] => some (showExcept (·.1) (getByIndex table (parseInt i)))
  | "stat", [i, p] =>
      some (match getByIndex table (parseInt i) with
        | .error e => e.show
        | .ok e => if (byFunc e.2).isNone then "NOMODEL:" ++ e.2 else int (runEntry e (parseSeq p)))
  | "statm", [i, p] =>
      some (match getByIndex table (parseInt i) with
        | .error e => e.show
        | .ok e => if (byFunc e.2).isNone then "NOMODEL:" ++ e.2 else int (runEntry e (parseSeq p)))
  | "spec", [i, p] =>
      some (match getByIndex table (parseInt i) with
        | .error e => e.show
        | .ok e => match Spec.Stat.byName e.1 with
          | none => "NOSPEC:" ++ e.1
          | some f => int (f (parseSeq p)))
  | "specl", [f, p] => specListing f (parseSeq p)
  | "dist", [i, n, b] =>
      some (match getByIndex table (parseInt i) with
        | .error e => e.show
        | .ok e => showSeq (distributionForLength e (parseNat n) (parseBasis b)))
  | "distupto", [i, n, b] =>
      some (match getByIndex table (parseInt i) with
        | .error e => e.show
        | .ok e => showSeqs (distributionUpTo e (parseNat n) (parseBasis b)))
  | "preserved", [i, bij] =>
      some (match getByIndex table (parseInt i) with
        | .error e => e.show
        | .ok e => showBool (preservedIn e (parseBij bij)))
  | "allpres", [bij] => some (showNames (checkAllPreservations table (parseBij bij)))
  | "transformed", [bij] =>
      some (showTransf (checkAllTransformed Generated.transformedMaterialised table (parseBij bij)))
  | "transformedm", [bij] =>
      some (showTransf (checkAllTransformed Generated.transformedMaterialised table (parseBij bij)))
  | "equidist", [b1, b2, n] => some (showNames (equallyDistributed table (parseSeqs b1) (parseSeqs b2) (parseNat n)))
  | "jointeq", [b1, b2, n, d] =>
      some (showNames ((jointlyEquallyDistributed table (parseSeqs b1) (parseSeqs b2) (parseNat n) (parseNat d)).map
        fun t => "+".intercalate t))
  | "jointtr", [b1, b2, n, d] =>
      some (showNames ((jointlyTransformedEquallyDistributed table (parseSeqs b1) (parseSeqs b2) (parseNat n)
        (parseNat d)).map fun t => "+".intercalate t.1 ++ "=>" ++ "+".intercalate t.2))
  | _, _ => none

end Driver.C11
