import PermutaModel.Model.C20Gen
open Proto

/-! Line protocol of C20 (see harness/c20.py for the grammar).

* `bisc <init> <ops>`  – a history of `write_json_to_file` / `write_bisc_files` / `read_bisc_file`
  calls in one directory; `init` pre-populates files with raw content.
* `rawread <content>`  – `read_bisc_file` on a file with the given raw content.
* `db <init> <ops>`    – a history of `store_dfa_for_perm` / `load_dfa_for_perm` /
  `create_dfa_db_for_length` / `make_dfa_for_basis_from_db` calls; automata are symbolic
  (`M<perm>` = the automaton `make_dfa_for_perm(perm)`). -/
namespace Driver.C20
open Model.C20

/-- raw file content: `_` is a space, `^` a newline -/
def decodeRaw (s : String) : Str :=
  s.toList.map fun c => if c = '_' then ' ' else if c = '^' then '\n' else c

def parseDataset (s : String) : Dataset :=
  if s == "." then [] else
    (s.splitOn "&").filterMap fun e =>
      match e.splitOn "=" with
      | [k, v] => some (parseNat k, parseSeqs v)
      | _ => none

/-- keys ascending in the answer (the order inside a `dict` is not an observable of the property) -/
def showDataset (d : Dataset) : String :=
  if d.isEmpty then "." else
    "&".intercalate ((d.mergeSort fun a b => a.1 ≤ b.1).map fun kv => s!"{kv.1}={showSeqs kv.2}")

def showWriteRes : WriteRes → String
  | .ok => "ok"
  | .cantWrite => "CANTWRITE"
  | .raised e => e.show

def showReadRes : ReadRes → String
  | .ok d => "OK:" ++ showDataset d
  | .invalid => "INVALID"
  | .garbage => "GARBAGE"
  | .raised e => e.show

def showOut : Out → String
  | .wrote oks => ",".intercalate (oks.map showWriteRes)
  | .readRes r => showReadRes r

def parseInit (s : String) : FS :=
  if s == "-" then [] else
    (s.splitOn "+").filterMap fun e =>
      match e.splitOn "=" with
      | [n, c] => some (n.toList ++ dotJson, decodeRaw c)
      | _ => none

def parseOp (s : String) : Option Op :=
  match s.splitOn ":" with
  | ["w", n, d] => some (.write (n.toList ++ dotJson) (parseDataset d))
  | ["W", info, n, pats] => some (.writeBisc info.toList (parseNat n) fun p => Model.avoidsAll p (parseSeqs pats))
  | ["r", n] => some (.read n.toList)
  | _ => none

def parseOps (s : String) : Option (List Op) :=
  if s == "-" then some [] else (s.splitOn "+").mapM parseOp

/-! database -/

def showLoad : Except PyErr NSeq → String
  | .ok q => "M" ++ showSeq q
  | .error e => e.show

inductive DLine where
  | op (o : DbOp NSeq) : DLine
  | basis (b : List NSeq) : DLine

def parseDbOp (s : String) : Option DLine :=
  match s.splitOn ":" with
  | ["s", p, "-"] => some (.op (.store (parseSeq p) none))
  | ["s", p, q] => some (.op (.store (parseSeq p) (some (parseSeq q))))
  | ["l", p] => some (.op (.load (parseSeq p)))
  | ["c", n] => some (.op (.create (parseNat n)))
  | ["x"] => some (.op .restart)
  | ["j", p] => some (.op (.corrupt (parseSeq p)))
  | ["b", b] => some (.basis (parseSeqs b))
  | _ => none

def dbInit (cfg : Cfg) (s : String) : DB NSeq :=
  if s == "-" then ⟨[], []⟩ else
    let db := (s.splitOn "+").foldl (fun (db : DB NSeq) e =>
      match e.splitOn "=" with
      | [p, "!"] => (dbStep cfg id db (.corrupt (parseSeq p))).1
      | [p, "@"] => store cfg id db (parseSeq p) none
      | [p, q] => store cfg id db (parseSeq p) (some (parseSeq q))
      | _ => db) ⟨[], []⟩
    { db with cache := [] }

def dbExec (cfg : Cfg) : DB NSeq → List DLine → List String
  | _, [] => []
  | db, .op o :: rest =>
    match dbStep cfg id db o with
    | (db', some r) => showLoad r :: dbExec cfg db' rest
    | (db', none) => dbExec cfg db' rest
  | db, .basis b :: rest =>
    let sorted := b.mergeSort fun x y => Model.permLe x y
    match loadBasis cfg id db sorted with
    | (db', .ok l) =>
      -- the union is compared as a set of (symbolic) languages
      (if l.all (sorted.contains ·) && sorted.all (l.contains ·) then "FRESH" else "DIFF") :: dbExec cfg db' rest
    | (db', .error e) => e.show :: dbExec cfg db' rest

def handle (op : String) (a : List String) : Option String :=
  match op, a with
  | "bisc", [init, ops] =>
      match parseOps ops with
      | some os =>
        let outs := (run genCfg (parseInit init) os).2
        some (if outs.isEmpty then "-" else "|".intercalate (outs.map showOut))
      | none => none
  | "rawread", [c] =>
      some (showReadRes (readBisc genCfg [(['f'] ++ dotJson, decodeRaw c)] ['f']))
  | "rawread", [] =>
      some (showReadRes (readBisc genCfg [(['f'] ++ dotJson, [])] ['f']))
  | "rawmut", [c] =>
      some (showReadRes (readBisc genCfg [(['f'] ++ dotJson, decodeRaw c)] ['f']))
  | "rawmut", [] =>
      some (showReadRes (readBisc genCfg [(['f'] ++ dotJson, [])] ['f']))
  | "db", [init, ops] =>
      match (if ops == "-" then some [] else (ops.splitOn "+").mapM parseDbOp) with
      | some os =>
        let outs := dbExec genCfg (dbInit genCfg init) os
        some (if outs.isEmpty then "-" else "|".intercalate outs)
      | none => none
  | _, _ => none

end Driver.C20
