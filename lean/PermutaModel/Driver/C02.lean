import PermutaModel.Model.C02
import PermutaModel.Model.C05
open Proto Model Model.C02

namespace Driver.C02

/-- maximal runs of equal length -/
def runs : List NSeq → List (List NSeq)
  | [] => []
  | p :: ps =>
    match runs ps with
    | [] => [[p]]
    | r :: rs => if (r.headD []).length == p.length then (p :: r) :: rs else [p] :: r :: rs

def sortRun (r : List NSeq) : List NSeq := sortBy lexLt r

/-- order-insensitive rendering of a complete listing: runs of equal length, each sorted -/
def canonFull (items : List NSeq) : String :=
  if items.isEmpty then "-" else "/".intercalate ((runs items).map fun r => showSeqs (sortRun r))

def inClass (b : BasisV) (p : NSeq) : Bool :=
  match b with
  | .classical l => avoidsAll p l
  | .mesh l => l.all fun m => !containsMesh p m

/-- rendering of a possibly partial listing: all runs but the last sorted; the last run only as
    `length*count!valid` (valid = pairwise distinct members of the class) -/
def canonPartial (b : BasisV) (items : List NSeq) : String :=
  match (runs items).reverse with
  | [] => "-"
  | last :: initRev =>
    let flag := (sortRun last).eraseDups.length == last.length && last.all (inClass b)
    "/".intercalate (initRev.reverse.map (fun r => showSeqs (sortRun r)) ++
      [s!"{(last.headD []).length}*{last.length}!{showBool flag}"])

/-- rendering of a chunk taken from the middle of an iterator: run lengths only, plus validity -/
def canonCounts (b : BasisV) (items : List NSeq) : String :=
  if items.isEmpty then "-" else
  let flag := (sortRun items).eraseDups.length == items.length && items.all (inClass b)
  "/".intercalate ((runs items).map fun r => s!"{(r.headD []).length}*{r.length}") ++ "!" ++ showBool flag

def parseBasis (s : String) : BasisV ⊕ List NSeq :=
  -- elements separated by ';'; an element containing '/' is a mesh pattern
  let elems := if s == "-" then [] else s.splitOn ";"
  if elems.any (fun e => e.contains '/') then
    .inl (.mesh (elems.map fun e =>
      match e.splitOn "/" with
      | [p, c] => ⟨parseSeq p, parseCells c⟩
      | _ => ⟨parseSeq e, []⟩))
  else .inr (elems.map parseSeq)

/-- `Av.from_iterable(patterns)` for a basis given as text: classical patterns go through the model of
    `Basis(*patts)`, a list with a mesh pattern through the model of `MeshBasis(*patts)` (sort + pruner, C05;
    a pattern without shading stands for a classical `Perm` of the input) -/
def newFromBasisString (s : Proc) (name basis : String) : Except Err Proc :=
  match parseBasis basis with
  | .inl (.mesh l) =>
    match Model.C05.meshBasisNew (l.map fun (m : Mesh) =>
        if m.shading.isEmpty then Model.C08.Atom.perm m.pattern
        else Model.C08.Atom.mesh ⟨Generated.DCls.MeshPatt, m.pattern, (normMesh m).shading⟩) with
    | .ok b => s.newMesh name (b.map Model.C05.toMesh)
    | .error e => .error e
  | .inl b => s.newClass name b
  | .inr l => s.newClassical name l

structure St where
  proc : Proc
  yielded : List (String × List NSeq)   -- everything an iterator has produced so far
  iterBasis : List (String × BasisV)

def St.init : St := ⟨Proc.init, [], []⟩

def objBasis (s : Proc) (name : String) : BasisV :=
  match s.obj? name with
  | some (_, o) => o.basis
  | none => .classical []

/-- digits of a `from_string` argument: maximal digit groups, each standardised (basis.py:20) -/
def parseFromString (s : String) : List NSeq :=
  ((s.splitOn "_").filter (· ≠ "")).map fun g =>
    standardize (g.toList.map fun c => c.toNat - '0'.toNat)

partial def step (st : St) (op : String) : St × String :=
  let s := st.proc
  match op.splitOn ":" with
  | ["N", name, basis] =>
    match newFromBasisString s name basis with
    | .ok s' => ({ st with proc := s' }, "ok")
    | .error e => (st, e.show)
  | ["S", name, str] =>
    match s.newClassical name (parseFromString str) with
    | .ok s' => ({ st with proc := s' }, "ok")
    | .error e => (st, e.show)
  | ["X"] => ({ st with proc := { s with classCache := [] } }, "ok")
  | ["C", name, n] =>
    match s.level name (parseNat n) with
    | .ok (s', ks) => ({ st with proc := s' }, toString ks.length)
    | .error e => (st, e.show)
  | ["L", name, n] =>
    match s.level name (parseNat n) with
    | .ok (s', ks) => ({ st with proc := s' }, canonFull ks)
    | .error e => (st, e.show)
  | ["I", name, p] =>
    match s.level name (parseSeq p).length with
    | .ok (s', ks) => ({ st with proc := s' }, showBool (ks.contains (parseSeq p)))
    | .error e => (st, e.show)
  | ["U", name, n] =>
    match s.upTo name (parseNat n + 1) 0 with
    | .ok (s', ks) => ({ st with proc := s' }, canonFull ks)
    | .error e => (st, e.show)
  | ["E", name, n] =>
    match s.enumeration name (parseNat n + 1) 0 with
    | .ok (s', cs) => ({ st with proc := s' }, showSeq cs)
    | .error e => (st, e.show)
  | ["F", name, k, _tag] => step st s!"F:{name}:{k}"
  | ["F", name, k] =>
    match s.obj? name with
    | none => (st, Err.keyError.show)
    | some (id, o) =>
      match s.iterTake (.first id (parseNat k) 0 [] false) (parseNat k) with
      | .ok (s', _, items) => ({ st with proc := s' }, canonPartial o.basis items)
      | .error e => (st, e.show)
  | ["B", a, b] =>
    match s.isSubclass a b with
    | .ok (s', r) => ({ st with proc := s' }, showBool r)
    | .error e => (st, e.show)
  | ["O", it, name, kind, arg] =>
    match s.obj? name with
    | none => (st, Err.keyError.show)
    | some (id, o) =>
      let reg (s' : Proc) (i : IterSt) : St × String :=
        ({ proc := { s' with iters := (it, i) :: s'.iters.filter (·.1 != it) },
           yielded := (it, []) :: st.yielded.filter (·.1 != it),
           iterBasis := (it, o.basis) :: st.iterBasis.filter (·.1 != it) }, "ok")
      match kind with
      | "L" =>
        match s.level name (parseNat arg) with
        | .ok (s', ks) => reg s' (.ofLen ks)
        | .error e => (st, e.show)
      | "U" => reg s (.upTo id 0 (parseNat arg) [])
      | _ => reg s (.first id (parseNat arg) 0 [] false)
  | ["T", it, k] =>
    match s.iters.find? (·.1 == it) with
    | none => (st, Err.keyError.show)
    | some (_, i) =>
      match s.iterTake i (parseNat k) with
      | .error e => (st, e.show)
      | .ok (s', i', items) =>
        let b := ((st.iterBasis.find? (·.1 == it)).map (·.2)).getD (.classical [])
        let old := ((st.yielded.find? (·.1 == it)).map (·.2)).getD []
        ({ st with proc := { s' with iters := (it, i') :: s'.iters.filter (·.1 != it) },
                   yielded := (it, old ++ items) :: st.yielded.filter (·.1 != it) },
         canonCounts b items)
  | ["D", it] =>
    match s.iters.find? (·.1 == it) with
    | none => (st, Err.keyError.show)
    | some (_, i) =>
      match s.iterTake i 1000000 with
      | .error e => (st, e.show)
      | .ok (s', i', items) =>
        let old := ((st.yielded.find? (·.1 == it)).map (·.2)).getD []
        let b := ((st.iterBasis.find? (·.1 == it)).map (·.2)).getD (.classical [])
        ({ st with proc := { s' with iters := (it, i') :: s'.iters.filter (·.1 != it) },
                   yielded := (it, old ++ items) :: st.yielded.filter (·.1 != it) },
         canonPartial b (old ++ items))
  | ["K", name] =>
    match s.obj? name with
    | none => (st, Err.keyError.show)
    | some (_, _) =>
      -- how far the cache extends is not compared (a fast path of the implementation may answer without building a
      -- level); every level of the MODEL's cache is right in every reachable state (C02.proc_invariant), so the model
      -- answers `K!T` and the implementation side checks its own levels one by one (harness/c02.py)
      (st, "K!T")
  | _ => (st, "bad-op")

def runHist (ops : List String) : String :=
  let (_, outs) := ops.foldl (fun (acc : St × List String) op =>
    let (st', out) := step acc.1 op
    (st', out :: acc.2)) (St.init, [])
  "|".intercalate outs.reverse

def handle (op : String) (a : List String) : Option String :=
  match op, a with
  | "avhist", [ops] => some (runHist (ops.splitOn "|"))
  | "basis", [ps] => some (showSeqs (basisNew (parseSeqs ps)))
  | _, _ => none

end Driver.C02
