import PermutaModel.Model.C19
open Proto

namespace Driver.C19
open Model.C19

/-- the property speaks about the reported *set*: names are printed sorted (as the harness does) -/
def showNames (l : List String) : String :=
  if l.isEmpty then "-" else "+".intercalate (l.mergeSort fun a b => decide (a ≤ b))

def parseB (s : String) : Bool := s == "T"

def handle (op : String) (a : List String) : Option String :=
  match op, a with
  | "find", [long, hfs, b] =>
      some (showExcept showNames (findStrategies (parseSeqs b) (parseB long) (parseB hfs)))
  | "applies", [name, hfs, b] =>
      if Generated.allStrategies.contains name then
        some (showExcept showBool (appliesByName name (parseSeqs b) (parseB hfs)))
      else none
  | "valid", [name, p] =>
      (Strat.all.find? fun s => s.name == name).map fun s => showExcept showBool (s.valid (parseSeq p))
  | "sym8find", [long, hfs8, b] =>
      -- `hfs8`: the eight has_finite_simples verdicts of the eight images, e.g. `TTTTTTTT`
      some ("|".intercalate ((List.range 8).map fun k =>
        showExcept showNames (findStrategies ((parseSeqs b).map (Model.C13.sym k)) (parseB long)
          ((hfs8.toList.getD k 'F') == 'T'))))
  | _, _ => none

end Driver.C19
