import PermutaModel.Model.C08
open Proto Generated Model.C08

/-! Line protocol of C08.  Objects are single tokens:
    `P0,1` permutation · `M0,1/0.0,1.1` MeshPatt(pattern, cells) · `B0,1/1/_` BivincularPatt(pattern, adjacent
    indices, adjacent values) · `V0,1/1` VincularPatt · `C0,1/1` CovincularPatt · `S0,1;1,0` Basis whose tuple is
    these perms (`S-` empty) · `TM0/0.0+V0,1/1` MeshBasis whose tuple is these mesh objects (`T-` empty). -/
namespace Driver.C08

def cellLe (a b : Cell) : Bool := cellLt a b || a == b

/-- frozenset → sorted duplicate-free list -/
def normCells (l : List Cell) : List Cell := (l.mergeSort cellLe).eraseDups

/-- the assertion of `MeshPatt.__init__`: all coordinates in `0..n` -/
def cellsOk (n : Nat) (l : List Cell) : Bool := l.all fun c => c.1 ≤ n && c.2 ≤ n

/-- `BivincularPatt._to_shading` (bivincularpatt.py:12-22), with its assertions -/
def toShading (n : Nat) (idx vals : List Nat) : Except Err (List Cell) :=
  if idx.all (· ≤ n) && vals.all (· ≤ n) then
    .ok ((idx.flatMap fun i => (List.range (n+1)).map fun v => (i, v)) ++
         (vals.flatMap fun v => (List.range (n+1)).map fun i => (i, v)))
  else .error .assertion

def parseMObj (s : String) : Except Err MObj :=
  let k := s.take 1
  let parts := ((s.drop 1).toString.splitOn "/")
  if k == "M" then
    match parts with
    | [p, c] =>
      let p := parseSeq p
      let c := parseCells c
      if cellsOk p.length c then .ok ⟨.MeshPatt, p, normCells c⟩ else .error .assertion
    | _ => .error .valueError
  else if k == "B" then
    match parts with
    | [p, i, v] =>
      let p := parseSeq p
      match toShading p.length (parseSeq i) (parseSeq v) with
      | .ok c => .ok ⟨.BivincularPatt, p, normCells c⟩
      | .error e => .error e
    | _ => .error .valueError
  else if k == "V" then
    match parts with
    | [p, i] =>
      let p := parseSeq p
      match toShading p.length (parseSeq i) [] with
      | .ok c => .ok ⟨.VincularPatt, p, normCells c⟩
      | .error e => .error e
    | _ => .error .valueError
  else if k == "C" then
    match parts with
    | [p, v] =>
      let p := parseSeq p
      match toShading p.length [] (parseSeq v) with
      | .ok c => .ok ⟨.CovincularPatt, p, normCells c⟩
      | .error e => .error e
    | _ => .error .valueError
  else .error .valueError

def parseObj (s : String) : Except Err Obj :=
  let k := s.take 1
  let rest := (s.drop 1).toString
  if k == "P" then .ok (.atom (.perm (parseSeq rest)))
  else if k == "S" then .ok (.basis (parseSeqs rest))
  else if k == "T" then
    if rest == "-" then .ok (.mbasis [])
    else
      match (rest.splitOn "+").mapM parseMObj with
      | .ok ms => .ok (.mbasis ms)
      | .error e => .error e
  else
    match parseMObj s with
    | .ok m => .ok (.atom (.mesh m))
    | .error e => .error e

def showMObj (m : MObj) : String := s!"{showSeq m.pattern}/{showCells m.shading}"

def showObj : Obj → String
  | .atom (.perm p) => "P" ++ showSeq p
  | .atom (.mesh m) => "M" ++ showMObj m
  | .basis es => "S" ++ showSeqs es
  | .mbasis es => "T" ++ (if es.isEmpty then "-" else "+".intercalate (es.map fun m => "M" ++ showMObj m))

def showR (r : Except Err Bool) : String := showExcept showBool r

def allOps : List DMeth := [.eq, .ne, .lt, .le, .gt, .ge]

def isTrue (r : Except Err Bool) : Bool := match r with | .ok true => true | _ => false
def isErr (r : Except Err Bool) : Bool := match r with | .error _ => true | _ => false
def bOf (r : Except Err Bool) : Bool := match r with | .ok b => b | _ => false

/-- `eqlaws a b`: `==` is symmetric, reflexive on equal-valued fresh copies, `!=` is its negation -/
def eqLaws (a b : Obj) : String :=
  let e1 := cmp .eq a b
  let e2 := cmp .eq b a
  let n1 := cmp .ne a b
  let n2 := cmp .ne b a
  if isErr e1 || isErr e2 || isErr n1 || isErr n2 then "raises"
  else if bOf e1 != bOf e2 then "sym"
  else if bOf n1 == bOf e1 || bOf n2 == bOf e2 then "ne"
  else "ok"

/-- `ordlaws a b`: the four order operators are defined, exactly one of `<`, `==`, `>` holds,
    `<=` is `<` or `==`, `>=` is `>` or `==`, and `>`/`>=` mirror `<`/`<=` -/
def ordLaws (a b : Obj) : String :=
  let lt := cmp .lt a b
  let le := cmp .le a b
  let gt := cmp .gt a b
  let ge := cmp .ge a b
  let eq := cmp .eq a b
  let lt' := cmp .lt b a
  let le' := cmp .le b a
  if isErr lt || isErr le || isErr gt || isErr ge || isErr lt' || isErr le' then "total"
  else if (if bOf lt then 1 else 0) + (if bOf eq then 1 else 0) + (if bOf gt then 1 else 0) != 1 then "trich"
  else if bOf le != (bOf lt || bOf eq) then "le"
  else if bOf ge != (bOf gt || bOf eq) then "ge"
  else if bOf gt != bOf lt' || bOf ge != bOf le' then "mirror"
  else "ok"

/-- `trans a b c`: `<`, `<=` and `==` are transitive on this triple -/
def transLaw (a b c : Obj) : String :=
  let l1 := cmp .lt a b
  let l2 := cmp .lt b c
  let l3 := cmp .lt a c
  let m1 := cmp .le a b
  let m2 := cmp .le b c
  let m3 := cmp .le a c
  if isErr l1 || isErr l2 || isErr l3 || isErr m1 || isErr m2 || isErr m3 then "ERR:TypeError"
  else if bOf l1 && bOf l2 && !bOf l3 then "trans"
  else if bOf m1 && bOf m2 && !bOf m3 then "trans"
  else if isTrue (cmp .eq a b) && isTrue (cmp .eq b c) && !isTrue (cmp .eq a c) then "trans"
  else "ok"

def sortOk (l : List Obj) : String :=
  match sortedObjs l with
  | .error e => e.show
  | .ok s =>
    let perm := s.length == l.length && l.all (fun x => s.count x == l.count x)
    let adj := (s.zip s.tail).all fun xy => match cmp .lt xy.2 xy.1 with | .ok false => true | _ => false
    showBool (perm && adj)

def withObjs (toks : List String) (f : List Obj → String) : String :=
  match toks.mapM parseObj with
  | .error e => e.show
  | .ok os => if os.all (fun a => os.all (supported a)) then f os else "unsupported"

def handleCore (op : String) (a : List String) : Option String :=
  match op, a with
  | "cmp", [x, y] => some (withObjs [x, y] fun os =>
      match os with
      | [a, b] => "|".intercalate (allOps.map fun m => showR (cmp m a b))
      | _ => "?")
  | "eqval", [x, y] => some (withObjs [x, y] fun os => match os with | [a, b] => showR (cmp .eq a b) | _ => "?")
  | "eqlaws", [x, y] => some (withObjs [x, y] fun os => match os with | [a, b] => eqLaws a b | _ => "?")
  | "ordlaws", [x, y] => some (withObjs [x, y] fun os => match os with | [a, b] => ordLaws a b | _ => "?")
  | "trans", [x, y, z] => some (withObjs [x, y, z] fun os => match os with | [a, b, c] => transLaw a b c | _ => "?")
  | "hashco", [x, y] => some (withObjs [x, y] fun os => match os with | [a, b] => showBool (hashCoherent a b) | _ => "?")
  | "hashstable", [x] => some (withObjs [x] fun os => match os with | [a] => showBool (hashStableObs a) | _ => "?")
  | "lookup", [x, y] => some (withObjs [x, y] fun os =>
      match os with
      | [a, b] => if isTrue (cmp .eq a b) then showBool (lookupAlways a b false) else "T"
      | _ => "?")
  | "lookupself", [x] => some (withObjs [x] fun os => match os with | [a] => showBool (lookupAlways a a true) | _ => "?")
  | "sort", xs => some (withObjs xs fun os =>
      match sortedObjs os with
      | .error e => e.show
      | .ok s => if s.isEmpty then "-" else " ".intercalate (s.map showObj))
  | "sortok", xs => some (withObjs xs sortOk)
  | _, _ => none

/-- `fresh op args…`: the same operation evaluated by the harness in a fresh interpreter -/
def handle (op : String) (a : List String) : Option String :=
  match op, a with
  | "fresh", op' :: rest => handleCore op' rest
  | _, _ => handleCore op a

end Driver.C08
