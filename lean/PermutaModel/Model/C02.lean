import PermutaModel.Model.Mesh
/-! C02 model of `Av` (perm_sets/permset.py) and of `Basis` construction (perm_sets/basis.py):
    the level cache, the end-insertion builder, compaction, the class cache, lazily evaluated
    iterators.  Mutation is threaded through an explicit process state. -/
open Proto

namespace Model.C02

/-! ## Basis construction (basis.py) -/

/-- insertion into a list sorted by `lt` (stable) -/
def insertSorted {α} (lt : α → α → Bool) (x : α) : List α → List α
  | [] => [x]
  | y :: ys => if lt x y then x :: y :: ys else y :: insertSorted lt x ys

/-- `sorted(patts)` for a strict total order `lt` -/
def sortBy {α} (lt : α → α → Bool) (l : List α) : List α := l.foldr (insertSorted lt) []

/-- the loop of `Basis._pruner` (basis.py:31-35): keep a pattern iff it avoids everything kept so far -/
def pruneLoop : List NSeq → List NSeq → List NSeq
  | [], acc => acc
  | p :: ps, acc => if avoidsAll p acc then pruneLoop ps (acc ++ [p]) else pruneLoop ps acc

/-- `Basis._pruner` (basis.py:27-36) on a sorted non-empty list -/
def pruner (sorted : List NSeq) : List NSeq :=
  match sorted with
  | [] => []
  | p :: _ => if p.length = 0 then [p] else pruneLoop sorted []

/-- `Basis(*patts)` (basis.py:12-15) -/
def basisNew (patts : List NSeq) : List NSeq :=
  if patts.isEmpty then [] else pruner (sortBy permLt patts)

/-- lexicographic `<` on sorted cell lists (Python list-of-tuples comparison) -/
def cellLt (a b : Cell) : Bool := a.1 < b.1 || (a.1 == b.1 && a.2 < b.2)
def cellsLt : List Cell → List Cell → Bool
  | [], [] => false
  | [], _ :: _ => true
  | _ :: _, [] => false
  | a :: as, b :: bs => cellLt a b || (a == b && cellsLt as bs)

/-- `MeshPatt.__lt__` for two plain mesh patterns (meshpatt.py:826-832) -/
def meshLt (a b : Mesh) : Bool :=
  if a.pattern != b.pattern then permLt a.pattern b.pattern
  else cellsLt (sortBy cellLt a.shading) (sortBy cellLt b.shading)

def normMesh (m : Mesh) : Mesh := ⟨m.pattern, sortBy cellLt m.shading⟩

/-! ## Classes -/

inductive BasisV where
  | classical (b : List NSeq)
  | mesh (b : List Mesh)
deriving DecidableEq, Repr

/-- one cache level: the dict `Perm → Optional[List[int]]` in insertion order -/
abbrev Level := List (NSeq × Option (List Nat))

structure AvObj where
  basis : BasisV
  cache : List Level
deriving Repr

def Level.keys (l : Level) : List NSeq := l.map (·.1)

def Level.lookup (l : Level) (p : NSeq) : Option (Option (List Nat)) :=
  match l.find? (fun e => e.1 == p) with
  | none => none
  | some e => some e.2

/-- `acceptable` of `valid_insertions` (permset.py:164-165) -/
def acceptable (spots : List Nat) (val : Nat) : List Nat :=
  spots.filter (· ≤ val) ++ (spots.filter (· ≥ val)).map (· + 1)

/-- the loop of `valid_insertions` (permset.py:158-170) over window positions `is`;
    `res = none` is Python's `res is None` -/
def validLoop (prev : Level) (perm : NSeq) : List Nat → Option (List Nat) → Except Err (Option (List Nat))
  | [], res => .ok res
  | i :: is, res =>
    match prev.lookup (removeAt perm i) with
    | none => .error .keyError
    | some none => .error .assertion
    | some (some spots) =>
      match res with
      | none =>
        if ((acceptable spots (perm.getD i 0)).eraseDups).isEmpty then .ok (some [])
        else validLoop prev perm is (some (acceptable spots (perm.getD i 0)).eraseDups)
      | some r =>
        if (r.filter fun k => (acceptable spots (perm.getD i 0)).contains k).isEmpty then .ok (some [])
        else validLoop prev perm is
          (some (r.filter fun k => (acceptable spots (perm.getD i 0)).contains k))

/-- `valid_insertions(perm)` (permset.py:155-171) for `perm` of length `n`; `prev` is level `n-1` -/
def validInsertions (prev : Level) (maxSize : Nat) (perm : NSeq) : Except Err (List Nat) :=
  match validLoop prev perm (List.range' (perm.length - maxSize) (perm.length - (perm.length - maxSize))) none with
  | .error e => .error e
  | .ok none => .ok (List.range (perm.length + 1))
  | .ok (some r) => .ok r

/-- append `value` at the end of `perm` (`perm.insert(index=n+1, new_element=value)`) -/
def appendValue (perm : NSeq) (value : Nat) : NSeq := insertAt perm (perm.length + 1) value

/-- inner loop over the values for one `perm` (permset.py:174-179): returns the new-level entries
    created and the values appended to `lis` -/
def extendPerm (forbidden : List NSeq) (perm : NSeq) : List Nat → List (NSeq × Option (List Nat)) × List Nat
  | [] => ([], [])
  | v :: vs =>
    if forbidden.contains (appendValue perm v) then extendPerm forbidden perm vs
    else (((appendValue perm v, some []) :: (extendPerm forbidden perm vs).1),
          v :: (extendPerm forbidden perm vs).2)

/-- the loop over `last_level.items()` (permset.py:173-179): returns the updated last level
    (lists extended) and the new level -/
def buildLoop (prev : Level) (maxSize : Nat) (forbidden : List NSeq) :
    Level → Except Err (Level × Level)
  | [] => .ok ([], [])
  | (perm, lis) :: rest =>
    match validInsertions prev maxSize perm with
    | .error e => .error e
    | .ok vals =>
      match lis with
      | none =>
        -- `assert lis is not None` is reached only when a value is actually inserted
        if (extendPerm forbidden perm vals).2.isEmpty then
          match buildLoop prev maxSize forbidden rest with
          | .error e => .error e
          | .ok (last', new') => .ok ((perm, none) :: last', new')
        else .error .assertion
      | some l =>
        match buildLoop prev maxSize forbidden rest with
        | .error e => .error e
        | .ok (last', new') =>
          .ok ((perm, some (l ++ (extendPerm forbidden perm vals).2)) :: last',
               (extendPerm forbidden perm vals).1 ++ new')

def maxSize (b : List NSeq) : Nat := b.foldl (fun m p => max m p.length) 0

/-- replace the last element of a list -/
def setLast {α} (l : List α) (x : α) : List α := l.dropLast ++ [x]

/-- one iteration of the `for nplusone` loop (permset.py:148-180): builds level `cache.length` -/
def buildOne (b : List NSeq) (cache : List Level) : Except Err (List Level) :=
  match buildLoop (cache.getD (cache.length - 2) []) (maxSize b)
      (b.filter fun p => p.length == cache.length) (cache.getLastD []) with
  | .error e => .error e
  | .ok (last', new') => .ok (setLast cache last' ++ [new'])

/-- `_ensure_level_classical_pattern_basis` (permset.py:143-180) with `fuel` = number of levels to add -/
def ensureClassical (b : List NSeq) : Nat → List Level → Except Err (List Level)
  | 0, cache => .ok cache
  | k+1, cache =>
    match buildOne b cache with
    | .error e => .error e
    | .ok cache' => ensureClassical b k cache'

/-- `_ensure_level_mesh_pattern_basis` (permset.py:182-186) -/
def meshLevel (b : List Mesh) (i : Nat) : Level :=
  ((permsLex i).filter fun p => b.all fun m => !containsMesh p m).map fun p => (p, none)

def ensureMesh (b : List Mesh) (levelNumber : Nat) (cache : List Level) : List Level :=
  cache ++ (List.range' cache.length (levelNumber + 1 - cache.length)).map (meshLevel b)

/-- compaction (permset.py:140-141): levels `start … levelNumber-2` lose their lists -/
def compact (cache : List Level) (start levelNumber : Nat) : List Level :=
  cache.zipIdx.map fun li =>
    if start ≤ li.2 ∧ li.2 + 1 < levelNumber then li.1.map fun e => (e.1, none) else li.1

/-- `Av._ensure_level` (permset.py:134-141) -/
def ensureLevel (o : AvObj) (levelNumber : Nat) : Except Err AvObj :=
  match o.basis with
  | .classical b =>
    match ensureClassical b (levelNumber + 1 - o.cache.length) o.cache with
    | .error e => .error e
    | .ok c => .ok { o with cache := compact c (o.cache.length - 2) levelNumber }
  | .mesh b =>
    .ok { o with cache := compact (ensureMesh b levelNumber o.cache) (o.cache.length - 2) levelNumber }

/-- `Av._get_level` (permset.py:188-191): the keys of the requested level -/
def getLevel (o : AvObj) (n : Nat) : Except Err (AvObj × List NSeq) :=
  match ensureLevel o n with
  | .error e => .error e
  | .ok o' => .ok (o', (o'.cache.getD n []).keys)

/-- a fresh class object (permset.py:44-47): level 0 is `{Perm(): [0]}` when the empty permutation
    avoids the basis (always, for an accepted classical basis) and `{}` otherwise (a mesh basis that
    contains an empty pattern) -/
def freshObj (b : BasisV) : AvObj :=
  match b with
  | .classical _ => ⟨b, [[([], some [0])]]⟩
  | .mesh l => if l.all (fun m => !containsMesh [] m) then ⟨b, [[([], some [0])]]⟩ else ⟨b, [[]]⟩

/-! ## Process state: class cache, named objects, open iterators -/

inductive IterSt where
  /-- `of_length`: snapshot of the remaining keys -/
  | ofLen (rest : List NSeq)
  /-- `up_to_length(maxLen)` generator: remaining keys of the current level, next length to request -/
  | upTo (obj : Nat) (next maxLen : Nat) (cur : List NSeq)
  /-- `first(count)`: `islice(_all(), count)`; `remaining` items still allowed, `done` = `_all` broke off -/
  | first (obj : Nat) (remaining nextLen : Nat) (cur : List NSeq) (done : Bool)
deriving Repr

structure Proc where
  classCache : List (BasisV × Nat)
  objs : List AvObj
  names : List (String × Nat)
  iters : List (String × IterSt)
deriving Repr

def Proc.init : Proc := ⟨[], [], [], []⟩

def Proc.obj? (s : Proc) (name : String) : Option (Nat × AvObj) :=
  match s.names.find? (·.1 == name) with
  | none => none
  | some (_, id) => match s.objs[id]? with
    | none => none
    | some o => some (id, o)

def Proc.setObj (s : Proc) (id : Nat) (o : AvObj) : Proc := { s with objs := s.objs.set id o }

def Proc.bind (s : Proc) (name : String) (id : Nat) : Proc :=
  { s with names := (name, id) :: s.names.filter (·.1 != name) }

/-- `Av.__new__` (permset.py:30-48) given the already-constructed basis value -/
def Proc.newClass (s : Proc) (name : String) (b : BasisV) : Except Err Proc :=
  let emptyOrForbidden := match b with
    | .classical l => l.isEmpty || l == [[]]
    | .mesh l => l.isEmpty
  if emptyOrForbidden then .error .valueError
  else
    match s.classCache.find? (·.1 == b) with
    | some (_, id) => .ok (s.bind name id)
    | none =>
      .ok ({ s with classCache := (b, s.objs.length) :: s.classCache,
                    objs := s.objs ++ [freshObj b] }.bind name s.objs.length)

/-- `Av.from_iterable` / `Av(iterable)` for classical patterns -/
def Proc.newClassical (s : Proc) (name : String) (patts : List NSeq) : Except Err Proc :=
  s.newClass name (.classical (basisNew patts))

/-- mesh basis: the harness supplies the elements of the constructed `MeshBasis`; only their
    canonical order matters for the class-cache key -/
def Proc.newMesh (s : Proc) (name : String) (patts : List Mesh) : Except Err Proc :=
  s.newClass name (.mesh (sortBy meshLt (patts.map normMesh)))

/-- query a level of a named class, updating the object -/
def Proc.level (s : Proc) (name : String) (n : Nat) : Except Err (Proc × List NSeq) :=
  match s.obj? name with
  | none => .error .keyError
  | some (id, o) =>
    match getLevel o n with
    | .error e => .error e
    | .ok (o', ks) => .ok (s.setObj id o', ks)

def Proc.levelById (s : Proc) (id : Nat) (n : Nat) : Except Err (Proc × List NSeq) :=
  match s.objs[id]? with
  | none => .error .keyError
  | some o =>
    match getLevel o n with
    | .error e => .error e
    | .ok (o', ks) => .ok (s.setObj id o', ks)

/-- `up_to_length(n)` consumed completely right away -/
def Proc.upTo (s : Proc) (name : String) : Nat → Nat → Except Err (Proc × List NSeq)
  | 0, _ => .ok (s, [])
  | k+1, i =>
    match s.level name i with
    | .error e => .error e
    | .ok (s', ks) =>
      match Proc.upTo s' name k (i+1) with
      | .error e => .error e
      | .ok (s'', rest) => .ok (s'', ks ++ rest)

/-- `enumeration(n)` -/
def Proc.enumeration (s : Proc) (name : String) : Nat → Nat → Except Err (Proc × List Nat)
  | 0, _ => .ok (s, [])
  | k+1, i =>
    match s.level name i with
    | .error e => .error e
    | .ok (s', ks) =>
      match Proc.enumeration s' name k (i+1) with
      | .error e => .error e
      | .ok (s'', rest) => .ok (s'', ks.length :: rest)

/-- `is_subclass` (permset.py:133-137): `all(p1.get_perm() not in self for p1 in other.basis)` -/
def Proc.isSubclassLoop (s : Proc) (name : String) : List NSeq → Except Err (Proc × Bool)
  | [] => .ok (s, true)
  | p :: ps =>
    match s.level name p.length with
    | .error e => .error e
    | .ok (s', ks) => if ks.contains p then .ok (s', false) else Proc.isSubclassLoop s' name ps

def Proc.isSubclass (s : Proc) (a b : String) : Except Err (Proc × Bool) :=
  match s.obj? a, s.obj? b with
  | some (_, oa), some (_, ob) =>
    match oa.basis with
    | .mesh _ => .error .notImplemented      -- `raise NotImplementedError` for a mesh basis on the left
    | .classical _ =>
      match ob.basis with
      | .classical l => s.isSubclassLoop a l
      | .mesh l => s.isSubclassLoop a (l.map (·.pattern))   -- `p1.get_perm()`
  | _, _ => .error .keyError

/-- advance an iterator by one item (`next(it)`); `none` = exhausted -/
def Proc.iterNext (s : Proc) (it : IterSt) : Except Err (Proc × IterSt × Option NSeq) :=
  match it with
  | .ofLen [] => .ok (s, .ofLen [], none)
  | .ofLen (p :: rest) => .ok (s, .ofLen rest, some p)
  | .upTo obj next maxLen (p :: rest) => .ok (s, .upTo obj next maxLen rest, some p)
  | .upTo obj next maxLen [] => upToFetch s obj next maxLen (maxLen + 1 - next)
  | .first obj 0 nextLen cur done => .ok (s, .first obj 0 nextLen cur done, none)
  | .first obj (r+1) nextLen (p :: rest) done => .ok (s, .first obj r nextLen rest done, some p)
  | .first obj (r+1) nextLen [] true => .ok (s, .first obj (r+1) nextLen [] true, none)
  | .first obj (r+1) nextLen [] false =>
    match s.levelById obj nextLen with
    | .error e => .error e
    | .ok (s', []) => .ok (s', .first obj (r+1) nextLen [] true, none)
    | .ok (s', p :: rest) => .ok (s', .first obj r (nextLen+1) rest false, some p)
where
  /-- skip over empty levels of `up_to_length` -/
  upToFetch (s : Proc) (obj next maxLen : Nat) : Nat → Except Err (Proc × IterSt × Option NSeq)
    | 0 => .ok (s, .upTo obj next maxLen [], none)
    | fuel+1 =>
      match s.levelById obj next with
      | .error e => .error e
      | .ok (s', []) => upToFetch s' obj (next+1) maxLen fuel
      | .ok (s', p :: rest) => .ok (s', .upTo obj (next+1) maxLen rest, some p)

/-- take up to `k` items -/
def Proc.iterTake (s : Proc) (it : IterSt) : Nat → Except Err (Proc × IterSt × List NSeq)
  | 0 => .ok (s, it, [])
  | k+1 =>
    match s.iterNext it with
    | .error e => .error e
    | .ok (s', it', none) => .ok (s', it', [])
    | .ok (s', it', some p) =>
      match Proc.iterTake s' it' k with
      | .error e => .error e
      | .ok (s'', it'', ps) => .ok (s'', it'', p :: ps)

end Model.C02
