import PermutaModel.Model.Mesh
import PermutaModel.Generated.Tables
/-! C08 model: `==`, `!=`, `<`, `<=`, `>`, `>=`, `hash`, `sorted`, set/dict lookup on permutations,
    mesh-type patterns and bases, **with Python's dispatch rules** (`NotImplemented`, reflected
    methods, "subclass first", `TypeError` when both sides decline, `__hash__ = None` for a class
    that defines `__eq__` only).  Which class defines which dunder, its `isinstance` guard, the value
    returned when the guard fails and the kind of its body all come from `Generated.dunder`
    / `Generated.hashBody` (AST of perm.py 3018-3028, meshpatt.py 805-849, bivincularpatt.py 103-109,
    basis.py 38-42 / 93-97).  Import-free. -/
open Generated

namespace Model.C08

/-! ## values -/

/-- a mesh-type pattern object: concrete class (`MeshPatt`, `BivincularPatt`, `VincularPatt`,
    `CovincularPatt`), pattern, shading (the frozenset as a sorted duplicate-free list) -/
structure MObj where
  cls : DCls
  pattern : NSeq
  shading : List Cell
deriving DecidableEq, Repr

/-- patterns: the things that are compared by their own dunders -/
inductive Atom where
  | perm (p : NSeq)
  | mesh (m : MObj)
deriving DecidableEq, Repr

/-- everything C08 talks about: patterns, `Basis` (tuple of perms), `MeshBasis` (tuple of mesh objects) -/
inductive Obj where
  | atom (a : Atom)
  | basis (es : List NSeq)
  | mbasis (es : List MObj)
deriving DecidableEq, Repr

def Atom.cls : Atom → DCls
  | .perm _ => .Perm
  | .mesh m => m.cls

def Obj.cls : Obj → DCls
  | .atom a => a.cls
  | .basis _ => .Basis
  | .mbasis _ => .MeshBasis

/-! ## orders on the keys -/

/-- `(x, y) < (x', y')` on cells (tuple comparison of two ints) -/
def cellLt (a b : Cell) : Bool := a.1 < b.1 || (a.1 == b.1 && a.2 < b.2)

/-- list comparison (`sorted(shading) < sorted(shading')`): first differing position decides,
    a proper prefix is smaller -/
def listLex {α} [BEq α] (lt : α → α → Bool) : List α → List α → Bool
  | [], [] => false
  | [], _ :: _ => true
  | _ :: _, [] => false
  | a :: as, b :: bs => if a == b then listLex lt as bs else lt a b

def cellsLt : List Cell → List Cell → Bool := listLex cellLt

/-- `(pattern, sorted(shading)) < (pattern', sorted(shading'))`: `Perm.__lt__` on the first component
    (length, then lexicographic), list comparison on the second -/
def meshKeyLt (a b : MObj) : Bool :=
  if a.pattern == b.pattern then cellsLt a.shading b.shading else permLt a.pattern b.pattern

def meshKeyEq (a b : MObj) : Bool := a.pattern == b.pattern && a.shading == b.shading

/-- `key op key'` from `key < key'` and `key == key'` -/
def applyOp (op : DMeth) (lt eq : Bool) : Bool :=
  match op with
  | .lt => lt
  | .le => lt || eq
  | .gt => !(lt || eq)
  | .ge => !lt
  | .eq => eq
  | .ne => !eq

/-! ## class structure from the generated tables -/

/-- `issubclass(c, d)` along `Generated.dParent` (fuel = number of modelled classes) -/
def isSubFuel : Nat → DCls → DCls → Bool
  | 0, c, d => c == d
  | n+1, c, d => c == d || (match dParent c with | none => false | some p => isSubFuel n p d)

def isSubclass (c d : DCls) : Bool := isSubFuel 7 c d

/-- the first class on the MRO of `c` whose body defines `m` -/
def resolveFuel : Nat → DCls → DMeth → Option DDunder
  | 0, c, m => dunder c m
  | n+1, c, m =>
    match dunder c m with
    | some d => some d
    | none => match dParent c with
      | none => none
      | some p => resolveFuel n p m

def resolve (c : DCls) (m : DMeth) : Option DDunder := resolveFuel 7 c m

/-- does the MRO of `c` end in `tuple` (Perm, Basis, MeshBasis) rather than `object` -/
def tupleBasedFuel : Nat → DCls → Bool
  | 0, c => dIsTuple c
  | n+1, c => dIsTuple c || (match dParent c with | none => false | some p => tupleBasedFuel n p)

def tupleBased (c : DCls) : Bool := tupleBasedFuel 7 c

/-- result of calling one dunder method -/
inductive DRes where
  | val (b : Bool)
  | notImpl
  | raise (e : Proto.Err)
deriving DecidableEq, Repr

def swapOp : DMeth → DMeth
  | .lt => .gt | .gt => .lt | .le => .ge | .ge => .le | .eq => .eq | .ne => .ne

/-! ## the dispatch engine (shared by patterns and bases) -/

/-- what the engine needs to know about a universe of values -/
structure Ops (α : Type) where
  cls : α → DCls
  /-- `isinstance(x, c)` -/
  inst : α → DCls → Bool
  /-- `tuple.__op__(self, other)` for the tuple-based classes -/
  tupleCmp : DMeth → α → α → DRes
  /-- the non-delegating bodies; `none` for `swapped` -/
  body : DBody → α → α → DRes

/-- `self.__m__(other)` as an explicit method call: MRO lookup in the generated table, guard, body.
    `fuel` bounds the `other.__lt__(self)` delegation chain (2 suffices for the table at this commit;
    exhaustion stands for Python's `RecursionError` and is reported as a `TypeError`-kind raise). -/
def callDunder {α} (O : Ops α) : Nat → DMeth → α → α → DRes
  | 0, _, _, _ => .raise .typeError
  | fuel+1, m, self, other =>
    match resolve (O.cls self) m with
    | some d =>
      let pass := match d.guard with
        | .noGuard => true
        | .selfClass => O.inst other (O.cls self)
        | .named c => O.inst other c
      if pass then
        match d.body with
        | .swapped m' => callDunder O fuel m' other self
        | .notEq =>
          -- `not self == other`: the `==` operator (left method, then the reflected one, then identity)
          match callDunder O fuel .eq self other with
          | .val b => .val (!b)
          | .raise e => .raise e
          | .notImpl =>
            match callDunder O fuel .eq other self with
            | .val b => .val (!b)
            | .raise e => .raise e
            | .notImpl => .val true
        | b => O.body b self other
      else
        match d.fail with
        | .retFalse => .val false
        | .retNotImplemented => .notImpl
    | none =>
      if tupleBased (O.cls self) then O.tupleCmp m self other
      else
        match m with
        | .ne =>
          -- object.__ne__: invert `self.__eq__(other)` unless that is NotImplemented
          match callDunder O fuel .eq self other with
          | .val b => .val (!b)
          | r => r
        | _ => .notImpl   -- object.__eq__ of two distinct objects, object.__lt__ …

def dunderFuel : Nat := 4

/-- CPython `do_richcompare`: reflected method of a proper subclass first, then the left operand's
    method, then the reflected one; `==`/`!=` fall back to identity (the operands of one line are
    distinct objects), the order operators raise `TypeError`. -/
def richcmp {α} (O : Ops α) (m : DMeth) (a b : α) : Except Proto.Err Bool :=
  let subFirst := O.cls b != O.cls a && isSubclass (O.cls b) (O.cls a)
  let fallback : Except Proto.Err Bool :=
    match m with
    | .eq => .ok false
    | .ne => .ok true
    | _ => .error .typeError
  if subFirst then
    match callDunder O dunderFuel (swapOp m) b a with
    | .val r => .ok r
    | .raise e => .error e
    | .notImpl =>
      match callDunder O dunderFuel m a b with
      | .val r => .ok r
      | .raise e => .error e
      | .notImpl => fallback
  else
    match callDunder O dunderFuel m a b with
    | .val r => .ok r
    | .raise e => .error e
    | .notImpl =>
      match callDunder O dunderFuel (swapOp m) b a with
      | .val r => .ok r
      | .raise e => .error e
      | .notImpl => fallback

/-! ## patterns -/

def Atom.inst (a : Atom) (c : DCls) : Bool := isSubclass a.cls c

/-- `tuple.__op__(perm, other)`: plain lexicographic tuple comparison of the entries when the other
    operand is a tuple too, `NotImplemented` otherwise -/
def atomTupleCmp (m : DMeth) (a b : Atom) : DRes :=
  match a, b with
  | .perm p, .perm q => .val (applyOp m (lexLt p q) (p == q))
  | _, _ => .notImpl

/-- the non-delegating bodies on patterns -/
def atomBody (b : DBody) (self other : Atom) : DRes :=
  match b, self, other with
  | .lenTuple op, .perm p, .perm q => .val (applyOp op (permLt p q) (p == q))
  | .lenTuple _, _, _ => .raise .typeError          -- `tuple(other)`: a mesh pattern is not iterable
  | .meshKey op, .mesh x, .mesh y => .val (applyOp op (meshKeyLt x y) (meshKeyEq x y))
  | .meshKey _, _, _ => .raise .typeError           -- (`AttributeError` in Python; unreachable behind the guards)
  | .fieldsEq, .mesh x, .mesh y => .val (meshKeyEq x y)
  | .fieldsEq, _, _ => .raise .typeError            -- idem
  | .tupleEq, x, y => atomTupleCmp .eq x y
  | .swapped _, _, _ => .notImpl                    -- handled by the engine
  | .notEq, _, _ => .notImpl                        -- handled by the engine

def atomOps : Ops Atom := ⟨Atom.cls, Atom.inst, atomTupleCmp, atomBody⟩

/-- `a op b` for two patterns -/
def cmpAtom (m : DMeth) (a b : Atom) : Except Proto.Err Bool := richcmp atomOps m a b

/-! ## bases: tuples of patterns -/

/-- `tuple_richcompare` on the items: the first position where the items differ (by `==`) decides with
    `op` applied to those two items; if there is none, the lengths decide -/
def itemsCmp (m : DMeth) : List Atom → List Atom → Except Proto.Err Bool
  | [], [] => .ok (applyOp m false true)
  | [], _ :: _ => .ok (applyOp m true false)
  | _ :: _, [] => .ok (applyOp m false false)
  | x :: xs, y :: ys =>
    match cmpAtom .eq x y with
    | .error e => .error e
    | .ok true => itemsCmp m xs ys
    | .ok false =>
      match m with
      | .eq => .ok false
      | .ne => .ok true
      | _ => cmpAtom m x y

def Obj.items : Obj → Option (List Atom)
  | .atom (.perm _) => none     -- entries are ints: not part of this universe
  | .atom (.mesh _) => none
  | .basis es => some (es.map Atom.perm)
  | .mbasis es => some (es.map Atom.mesh)

def Obj.inst (a : Obj) (c : DCls) : Bool := isSubclass a.cls c

def objTupleCmp (m : DMeth) (a b : Obj) : DRes :=
  match a, b with
  | .atom x, .atom y => atomTupleCmp m x y
  | a, b =>
    match a.items, b.items with
    | some xs, some ys =>
      match itemsCmp m xs ys with
      | .ok r => .val r
      | .error e => .raise e
    | _, _ => .notImpl     -- (pattern against basis: outside the modelled universe)

def objBody (b : DBody) (self other : Obj) : DRes :=
  match self, other with
  | .atom x, .atom y => atomBody b x y
  | s, o =>
    match b with
    | .tupleEq => objTupleCmp .eq s o
    | .swapped _ => .notImpl
    | .notEq => .notImpl
    | _ => .raise .typeError

def objOps : Ops Obj := ⟨Obj.cls, Obj.inst, objTupleCmp, objBody⟩

/-- pairs of kinds the model covers: pattern/pattern and basis/basis -/
def supported (a b : Obj) : Bool :=
  match a, b with
  | .atom _, .atom _ => true
  | .atom _, _ => false
  | _, .atom _ => false
  | _, _ => true

/-- `a op b` -/
def cmp (m : DMeth) (a b : Obj) : Except Proto.Err Bool := richcmp objOps m a b

/-! ## hashing -/

/-- the addresses the allocator hands to the successive temporaries created while one `hash(x)`
    is computed – the only way the rest of the process (other allocations, frees, gc) can influence a hash -/
abbrev AllocHistory := List Nat

inductive HTok where
  | n (v : Nat) | tagPerm | tagMesh | tagTuple | sep | addr (a : Nat)
deriving DecidableEq, Repr

abbrev HashKey := List HTok

/-- which `__hash__` a class ends up with -/
inductive HashKind where
  | value        -- `hash((self.pattern, self.shading))`
  | tuple        -- `tuple.__hash__`
  | tempIdentity -- `hash(super())`: `object.__hash__` of a temporary = its address
  | objIdentity  -- `object.__hash__` of the object itself
  | unhashable   -- `__hash__ = None` (class defines `__eq__` but not `__hash__`)
deriving DecidableEq, Repr

def hashKindFuel : Nat → DCls → HashKind
  | 0, _ => .unhashable
  | n+1, c =>
    match hashBody c with
    | .valueHash => .value
    | .tupleHash => .tuple
    | .identityOfTemporary => .tempIdentity
    | .superHash =>
      match dParent c with
      | some p => hashKindFuel n p
      | none => if dIsTuple c then .tuple else .objIdentity
    | .notDefined =>
      match dunder c .eq with
      | some _ => .unhashable
      | none =>
        match dParent c with
        | some p => hashKindFuel n p
        | none => if dIsTuple c then .tuple else .objIdentity

def hashKind (c : DCls) : HashKind := hashKindFuel 8 c

def permKey (p : NSeq) : HashKey := .tagPerm :: p.map .n

def meshValKey (m : MObj) : HashKey :=
  .tagMesh :: (permKey m.pattern ++ .sep :: m.shading.flatMap fun c => [.n c.1, .n c.2])

/-- `hash(a)` for a pattern when the allocator returns `addr` for the temporary (if one is created) -/
def hashAtom (addr : Nat) (a : Atom) : Except Proto.Err HashKey :=
  match hashKind a.cls, a with
  | .unhashable, _ => .error .typeError
  | .tempIdentity, _ => .ok [.addr addr]
  | .objIdentity, _ => .ok [.addr addr]
  | .tuple, .perm p => .ok (permKey p)
  | .tuple, .mesh _ => .error .typeError       -- `tuple.__hash__(mesh)`: descriptor needs a tuple
  | .value, .mesh m => .ok (meshValKey m)
  | .value, .perm _ => .error .typeError       -- (`AttributeError`; unreachable)

def hashItems : AllocHistory → List Atom → Except Proto.Err HashKey
  | _, [] => .ok []
  | h, x :: xs =>
    match hashAtom (h.headD 0) x with
    | .error e => .error e
    | .ok k =>
      match hashItems h.tail xs with
      | .error e => .error e
      | .ok ks => .ok (k ++ .sep :: ks)

/-- `hash(x)` under an allocation history -/
def hash (h : AllocHistory) (x : Obj) : Except Proto.Err HashKey :=
  match x with
  | .atom a => hashAtom (h.headD 0) a
  | o =>
    match hashKind o.cls, o.items with
    | .tuple, some xs =>
      match hashItems h xs with
      | .error e => .error e
      | .ok ks => .ok (.tagTuple :: ks)
    | .unhashable, _ => .error .typeError
    | _, _ => .ok [.addr (h.headD 0)]

/-- the hash does not depend on the allocation history -/
def atomStable (a : Atom) : Bool :=
  match hashKind a.cls with
  | .tempIdentity => false
  | .objIdentity => false
  | _ => true

def stable (x : Obj) : Bool :=
  match x with
  | .atom a => atomStable a
  | o =>
    match hashKind o.cls, o.items with
    | .tuple, some xs => xs.all atomStable
    | .unhashable, _ => true
    | _, _ => false

/-- both hashes exist and are equal -/
def sameHash (x y : Except Proto.Err HashKey) : Bool :=
  match x, y with
  | .ok a, .ok b => a == b
  | _, _ => false

/-- observable of the `hashco` line: "if `a == b` then `hash(a) == hash(b)` whatever the two
    allocation histories are".  With `stable` both hashes are history-free, so two probe histories
    that disagree everywhere decide the universally quantified statement (`Props.C08.hashCoherent_iff`). -/
def hashCoherent (a b : Obj) : Bool :=
  match cmp .eq a b with
  | .ok true => stable a && stable b && sameHash (hash [] a) (hash [] b)
  | _ => true

/-- `hash(a)` computed repeatedly gives one value, whatever is allocated in between -/
def hashStableObs (a : Obj) : Bool := stable a

/-- set / dict lookup of `b` in `{a}`: same hash and (`a is b` or `a == b`); "found whatever the
    allocation histories are" -/
def lookupAlways (a b : Obj) (same : Bool) : Bool :=
  stable a && stable b && sameHash (hash [] a) (hash [] b) &&
    (same || (match cmp .eq a b with | .ok r => r | .error _ => false))

/-! ## `sorted` (CPython `list.sort` for fewer than 64 elements: `count_run` + binary insertion) -/

section sort
variable {α : Type} (lt : α → α → Except Proto.Err Bool)

/-- length of the strictly descending run continuing after `prev` -/
def runDesc (prev : α) : List α → Except Proto.Err Nat
  | [] => .ok 0
  | x :: xs =>
    match lt x prev with
    | .error e => .error e
    | .ok false => .ok 0
    | .ok true =>
      match runDesc x xs with
      | .error e => .error e
      | .ok k => .ok (k+1)

/-- length of the non-descending run continuing after `prev` -/
def runAsc (prev : α) : List α → Except Proto.Err Nat
  | [] => .ok 0
  | x :: xs =>
    match lt x prev with
    | .error e => .error e
    | .ok true => .ok 0
    | .ok false =>
      match runAsc x xs with
      | .error e => .error e
      | .ok k => .ok (k+1)

/-- `count_run`: length of the initial run and whether it is descending -/
def countRun : List α → Except Proto.Err (Nat × Bool)
  | [] => .ok (0, false)
  | [_] => .ok (1, false)
  | a :: b :: rest =>
    match lt b a with
    | .error e => .error e
    | .ok true =>
      match runDesc lt b rest with
      | .error e => .error e
      | .ok k => .ok (k+2, true)
    | .ok false =>
      match runAsc lt b rest with
      | .error e => .error e
      | .ok k => .ok (k+2, false)

/-- the `do … while (l < r)` of `binarysort`: `pivot < arr[p]` moves `r`, otherwise `l`.
    Structural recursion on `fuel`, an upper bound of `r - l` (every round shrinks `r - l`;
    `Lemmas/PySort.binSearch_spec` proves the result for every `fuel ≥ r - l`). -/
def binSearchF (pivot : α) (arr : List α) : Nat → Nat → Nat → Except Proto.Err Nat
  | 0, l, _ => .ok l
  | fuel+1, l, r =>
    if l < r then
      match arr[l + (r - l) / 2]? with
      | none => .ok l
      | some x =>
        match lt pivot x with
        | .error e => .error e
        | .ok true => binSearchF pivot arr fuel l (l + (r - l) / 2)
        | .ok false => binSearchF pivot arr fuel (l + (r - l) / 2 + 1) r
    else .ok l

def binSearch (pivot : α) (arr : List α) (l r : Nat) : Except Proto.Err Nat :=
  binSearchF lt pivot arr (r - l) l r

/-- insert the remaining elements one by one into the sorted prefix -/
def binInsertAll : List α → List α → Except Proto.Err (List α)
  | pre, [] => .ok pre
  | pre, x :: xs =>
    match binSearch lt x pre 0 pre.length with
    | .error e => .error e
    | .ok i => binInsertAll (pre.take i ++ x :: pre.drop i) xs

/-- `sorted(l)` with the comparison `lt` (which may raise) -/
def pySort (l : List α) : Except Proto.Err (List α) :=
  match countRun lt l with
  | .error e => .error e
  | .ok (n, desc) =>
    binInsertAll lt (if desc then (l.take n).reverse else l.take n) (l.drop n)

end sort

def sortedObjs (l : List Obj) : Except Proto.Err (List Obj) := pySort (cmp .lt) l

end Model.C08
