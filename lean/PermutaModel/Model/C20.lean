import PermutaModel.Model.Perm

/-!
# C20 model — persisted BiSC data (permuta/bisc/bisc.py: create_bisc_input … read_bisc_file) and the automaton
database (permuta/permutils/pin_words.py: store_dfa_for_perm, load_dfa_for_perm, create_dfa_db_for_length)

Everything is over `List Char` (not `String`) so that the kernel can evaluate the definitions
(`decide`).  A file system is an association list name → content.  The behaviour that depends
on literal text of the source (`open` modes, the `except` tuple, `readline`, the existence check
of `store_dfa_for_perm`, the `lru_cache` on `load_dfa_for_perm`) is a parameter `Cfg`; the
driver and the theorems instantiate it with `Generated.c20Cfg`, written by the translator from
the current source.

JSON is modelled on the sub-language  null | true | false | natural | "string without escapes" |
array | object  with Python's `json.loads` grammar (white space, no trailing commas, no leading
zeros, control characters rejected inside strings, "Extra data" rejected).
-/
namespace Model.C20

abbrev Str := List Char
/-- a BiSC dictionary `{length: [perm, ...]}` in insertion order (a Python dict: keys distinct) -/
abbrev Dataset := List (Nat × List (List Nat))

/-- translator-extracted facts about the source text -/
structure Cfg where
  /-- mode of `open(file_name, mode)` in `write_json_to_file` -/
  writeMode : Str
  /-- class names in the `except` clause of `write_json_to_file` -/
  writeCaught : List Str
  /-- class names in the `except` clause of `read_bisc_file` -/
  readCaught : List Str
  /-- `from_json(f.readline())` (true) / `f.read()` (false) -/
  readOneLine : Bool
  /-- `from_json` raises `ValueError` unless the decoded value is a dict of lists of lists of `int` -/
  validateShape : Bool
  /-- `if path.is_file(): return` precedes the `open` in `store_dfa_for_perm` -/
  storeWriteOnce : Bool
  /-- `load_dfa_for_perm` is wrapped in `lru_cache` -/
  loadMemo : Bool

/-! ## decimal numerals -/

def digitChar : Nat → Char
  | 0 => '0' | 1 => '1' | 2 => '2' | 3 => '3' | 4 => '4'
  | 5 => '5' | 6 => '6' | 7 => '7' | 8 => '8' | _ => '9'

def digitVal? (c : Char) : Option Nat :=
  if c = '0' then some 0 else if c = '1' then some 1 else if c = '2' then some 2
  else if c = '3' then some 3 else if c = '4' then some 4 else if c = '5' then some 5
  else if c = '6' then some 6 else if c = '7' then some 7 else if c = '8' then some 8
  else if c = '9' then some 9 else none

def isDig (c : Char) : Bool := (digitVal? c).isSome

/-- `str(n)` with explicit fuel (structural, so the kernel can evaluate it) -/
def natDigitsAux : Nat → Nat → Str → Str
  | 0, _, acc => acc
  | f+1, n, acc =>
    if n < 10 then digitChar n :: acc
    else natDigitsAux f (n / 10) (digitChar (n % 10) :: acc)

/-- `str(n)` -/
def natDigits (n : Nat) : Str := natDigitsAux (n + 1) n []

/-- the maximal run of decimal digits, accumulated into a number -/
def takeDigits : Str → Nat → Nat × Str
  | [], acc => (acc, [])
  | c :: cs, acc =>
    match digitVal? c with
    | some d => takeDigits cs (acc * 10 + d)
    | none => (acc, c :: cs)

/-! ## JSON values, `json.dumps` on the fragment, `json.loads` -/

inductive J where
  | null : J
  | bool (b : Bool) : J
  | num (n : Nat) : J
  | str (s : Str) : J
  | arr (l : List J) : J
  | obj (l : List (Str × J)) : J

/-- `", ".join` continuation of a list of numbers, closing bracket included -/
def showNatsTail : List Nat → Str
  | [] => [']']
  | n :: ns => ',' :: ' ' :: (natDigits n ++ showNatsTail ns)

/-- `json.dumps` of a permutation (a tuple of ints): `[0, 2, 1]` -/
def showNats : List Nat → Str
  | [] => ['[', ']']
  | n :: ns => '[' :: (natDigits n ++ showNatsTail ns)

def showPermsTail : List (List Nat) → Str
  | [] => [']']
  | p :: ps => ',' :: ' ' :: (showNats p ++ showPermsTail ps)

/-- `json.dumps` of a list of permutations: `[[0, 1], [1, 0]]` -/
def showPerms : List (List Nat) → Str
  | [] => ['[', ']']
  | p :: ps => '[' :: (showNats p ++ showPermsTail ps)

/-- `"3": [[...], ...]` (int keys are written as strings) -/
def showMember (m : Nat × List (List Nat)) : Str :=
  '"' :: (natDigits m.1 ++ '"' :: ':' :: ' ' :: showPerms m.2)

def showMembersTail : Dataset → Str
  | [] => ['}']
  | m :: ms => ',' :: ' ' :: (showMember m ++ showMembersTail ms)

/-- `json.dumps(d)` for `d : {int: [Perm]}` with the default separators -/
def dumps : Dataset → Str
  | [] => ['{', '}']
  | m :: ms => '{' :: (showMember m ++ showMembersTail ms)

def isWs (c : Char) : Bool := c = ' ' || c = '\n' || c = '\t' || c = '\r'

def skipWs : Str → Str
  | [] => []
  | c :: cs => if isWs c then skipWs cs else c :: cs

/-- consume exactly the character `c` -/
def expect (c : Char) : Str → Option Str
  | [] => none
  | d :: r => if d = c then some r else none

def stripPrefix : Str → Str → Option Str
  | [], s => some s
  | _ :: _, [] => none
  | p :: ps, c :: cs => if p = c then stripPrefix ps cs else none

/-- body of a string after the opening quote (no escapes; control characters are rejected as by
    `json` in strict mode) -/
def parseStrBody : Str → Option (Str × Str)
  | [] => none
  | c :: cs =>
    if c = '"' then some ([], cs)
    else if c = '\\' then none
    else if c.toNat < 32 then none
    else match parseStrBody cs with
      | some (s, r) => some (c :: s, r)
      | none => none

mutual
/-- `scan_once` of `json.scanner` (input positioned on the first character of the value) -/
def parseValue : Nat → Str → Option (J × Str)
  | 0, _ => none
  | _+1, [] => none
  | f+1, c :: cs =>
    if c = '"' then
      match parseStrBody cs with
      | some (s, r) => some (J.str s, r)
      | none => none
    else if c = '[' then
      match expect ']' (skipWs cs) with
      | some r => some (J.arr [], r)
      | none =>
        match parseElems f (skipWs cs) with
        | some (l, r) => some (J.arr l, r)
        | none => none
    else if c = '{' then
      match expect '}' (skipWs cs) with
      | some r => some (J.obj [], r)
      | none =>
        match parseMembers f (skipWs cs) with
        | some (l, r) => some (J.obj l, r)
        | none => none
    else if c = 'n' then
      match stripPrefix ['u', 'l', 'l'] cs with
      | some r => some (J.null, r)
      | none => none
    else if c = 't' then
      match stripPrefix ['r', 'u', 'e'] cs with
      | some r => some (J.bool true, r)
      | none => none
    else if c = 'f' then
      match stripPrefix ['a', 'l', 's', 'e'] cs with
      | some r => some (J.bool false, r)
      | none => none
    else if c = '0' then some (J.num 0, cs)
    else if isDig c then some (J.num (takeDigits (c :: cs) 0).1, (takeDigits (c :: cs) 0).2)
    else none

/-- `JSONArray` after the first value position: `value (, value)* ]` -/
def parseElems : Nat → Str → Option (List J × Str)
  | 0, _ => none
  | f+1, s =>
    match parseValue f s with
    | none => none
    | some (v, r) =>
      match expect ']' (skipWs r) with
      | some r' => some ([v], r')
      | none =>
        match expect ',' (skipWs r) with
        | none => none
        | some r' =>
          match parseElems f (skipWs r') with
          | some (l, r'') => some (v :: l, r'')
          | none => none

/-- `JSONObject` positioned on the opening quote of a key: `"k" : value (, "k" : value)* }` -/
def parseMembers : Nat → Str → Option (List (Str × J) × Str)
  | 0, _ => none
  | f+1, s =>
    match expect '"' s with
    | none => none
    | some s1 =>
      match parseStrBody s1 with
      | none => none
      | some (k, r) =>
        match expect ':' (skipWs r) with
        | none => none
        | some r1 =>
          match parseValue f (skipWs r1) with
          | none => none
          | some (v, r2) =>
            match expect '}' (skipWs r2) with
            | some r3 => some ([(k, v)], r3)
            | none =>
              match expect ',' (skipWs r2) with
              | none => none
              | some r3 =>
                match parseMembers f (skipWs r3) with
                | some (l, r4) => some ((k, v) :: l, r4)
                | none => none
end

/-- `json.loads`: leading white space, one value, trailing white space, nothing else -/
def loads (s : Str) : Option J :=
  match parseValue (2 * s.length + 2) (skipWs s) with
  | none => none
  | some (j, r) => if (skipWs r).isEmpty then some j else none

/-! ## `from_json` : `{int(key): list(map(Perm, values)) for key, values in json_obj.items()}` -/

/-- exception kinds that can arise on the modelled paths -/
inductive PyErr where
  | jsonDecode | valueError | typeError | fileNotFound | osError | attributeError | syntaxError
deriving DecidableEq, Repr

/-- class names along the MRO (what an `except` clause can name) -/
def PyErr.mro : PyErr → List Str
  | .jsonDecode => [['J','S','O','N','D','e','c','o','d','e','E','r','r','o','r'],
                    ['V','a','l','u','e','E','r','r','o','r'], ['E','x','c','e','p','t','i','o','n']]
  | .valueError => [['V','a','l','u','e','E','r','r','o','r'], ['E','x','c','e','p','t','i','o','n']]
  | .typeError => [['T','y','p','e','E','r','r','o','r'], ['E','x','c','e','p','t','i','o','n']]
  | .fileNotFound => [['F','i','l','e','N','o','t','F','o','u','n','d','E','r','r','o','r'],
                      ['O','S','E','r','r','o','r'], ['I','O','E','r','r','o','r'],
                      ['E','x','c','e','p','t','i','o','n']]
  | .osError => [['O','S','E','r','r','o','r'], ['I','O','E','r','r','o','r'],
                 ['E','x','c','e','p','t','i','o','n']]
  | .attributeError => [['A','t','t','r','i','b','u','t','e','E','r','r','o','r'],
                        ['E','x','c','e','p','t','i','o','n']]
  | .syntaxError => [['S','y','n','t','a','x','E','r','r','o','r'], ['E','x','c','e','p','t','i','o','n']]

def PyErr.show : PyErr → String
  | .jsonDecode => "ERR:JSONDecodeError"
  | .valueError => "ERR:ValueError"
  | .typeError => "ERR:TypeError"
  | .fileNotFound => "ERR:FileNotFoundError"
  | .osError => "ERR:OSError"
  | .attributeError => "ERR:AttributeError"
  | .syntaxError => "ERR:SyntaxError"

def caught (names : List Str) (e : PyErr) : Bool := e.mro.any fun c => names.contains c

/-- result of converting a piece of JSON: a value of the BiSC shape, something Python accepts
    without complaint that is *not* of the BiSC shape (`garbage`), or an exception -/
inductive Conv (α : Type) where
  | ok (a : α) : Conv α
  | garbage : Conv α
  | err (e : PyErr) : Conv α
deriving DecidableEq

/-- evaluate left to right: the first exception wins, otherwise garbage is contagious -/
def seqConv {α : Type} : List (Conv α) → Conv (List α)
  | [] => .ok []
  | c :: cs =>
    match c, seqConv cs with
    | .err e, _ => .err e
    | .garbage, .err e => .err e
    | .garbage, _ => .garbage
    | .ok _, .err e => .err e
    | .ok _, .garbage => .garbage
    | .ok a, .ok l => .ok (a :: l)

def J.isNum : J → Bool
  | .num _ => true
  | _ => false

def J.numVal : J → Nat
  | .num n => n
  | _ => 0

/-- `Perm(e)` = `tuple(e)` for a decoded JSON value `e` -/
def permOf : J → Conv (List Nat)
  | .null => .err .typeError
  | .bool _ => .err .typeError
  | .num _ => .err .typeError
  | .str s => if s.isEmpty then .ok [] else .garbage
  | .obj l => if l.isEmpty then .ok [] else .garbage
  | .arr l => if l.all J.isNum then .ok (l.map J.numVal) else .garbage

/-- `list(map(Perm, v))` -/
def permsOf : J → Conv (List (List Nat))
  | .null => .err .typeError
  | .bool _ => .err .typeError
  | .num _ => .err .typeError
  | .str s => if s.isEmpty then .ok [] else .garbage
  | .obj l => if l.isEmpty then .ok [] else .garbage
  | .arr l => seqConv (l.map permOf)

/-- `str.strip()` on the characters that can occur inside a JSON string here (blanks) -/
def strip (k : Str) : Str := (skipWs (skipWs k).reverse).reverse

/-- `int(key)` on the keys we model: optional blanks around a non-empty run of ASCII digits
    (leading zeros allowed; signs, underscores and non-ASCII digits are outside the model) -/
def keyToNat (k : Str) : Option Nat :=
  if (strip k).isEmpty then none
  else if (strip k).all isDig then some (takeDigits (strip k) 0).1
  else none

def dictSet {κ ν : Type} [DecidableEq κ] : List (κ × ν) → κ × ν → List (κ × ν)
  | [], kv => [kv]
  | (k, v) :: rest, kv => if k = kv.1 then (k, kv.2) :: rest else (k, v) :: dictSet rest kv

/-- `dict(pairs)`: the last value wins, the position is that of the first occurrence -/
def pyDict {κ ν : Type} [DecidableEq κ] (l : List (κ × ν)) : List (κ × ν) := l.foldl dictSet []

def memberConv (m : Str × J) : Conv (Nat × List (List Nat)) :=
  match keyToNat m.1 with
  | none => .err .valueError
  | some k =>
    match permsOf m.2 with
    | .ok v => .ok (k, v)
    | .garbage => .garbage
    | .err e => .err e

/-- the dictionary comprehension of `from_json` applied to the decoded value -/
def convJson : J → Conv Dataset
  | .obj l =>
    match seqConv ((pyDict l).map memberConv) with
    | .ok d => .ok (pyDict d)
    | .garbage => .garbage
    | .err e => .err e
  | _ => .err .attributeError

/-- `isinstance(perm, list) and all(type(val) is int for val in perm)` -/
def shapeOkPerm : J → Bool
  | .arr l => l.all J.isNum
  | _ => false

/-- `isinstance(values, list) and all(<perm check> for perm in values)` -/
def shapeOkPerms : J → Bool
  | .arr l => l.all shapeOkPerm
  | _ => false

/-- `isinstance(json_obj, dict) and all(<values check> for values in json_obj.values())` -/
def shapeOk : J → Bool
  | .obj l => (pyDict l).all fun m => shapeOkPerms m.2
  | _ => false

/-- `from_json` applied to the decoded value: the shape validation (when the source has it), then the
    dictionary comprehension -/
def fromJson (validate : Bool) (j : J) : Conv Dataset :=
  if validate = true ∧ shapeOk j = false then .err .valueError
  else convJson j

/-- `from_json(json_string)` (bisc.py): `json.loads`, validation, dictionary comprehension -/
def fromJsonStr (validate : Bool) (s : Str) : Conv Dataset :=
  match loads s with
  | none => .err .jsonDecode
  | some j => fromJson validate j

/-! ## files -/

abbrev FS := List (Str × Str)

def fsGet {β : Type} : List (Str × β) → Str → Option β
  | [], _ => none
  | (k, v) :: rest, n => if k = n then some v else fsGet rest n

def fsSet {β : Type} : List (Str × β) → Str → β → List (Str × β)
  | [], n, c => [(n, c)]
  | (k, v) :: rest, n, c => if k = n then (k, c) :: rest else (k, v) :: fsSet rest n c

/-- the harness works in one existing directory; a name with a `/` points into a directory that
    does not exist -/
def dirMissing (name : Str) : Bool := name.contains '/'

/-- `with open(name, mode) as f: f.write(data)` -/
def writeFile (mode : Str) (fs : FS) (name data : Str) : Except PyErr FS :=
  if dirMissing name then .error .fileNotFound
  else if mode.contains 'w' then .ok (fsSet fs name data)
  else if mode.contains 'a' then .ok (fsSet fs name ((fsGet fs name).getD [] ++ data))
  else if mode.contains 'x' then
    (if (fsGet fs name).isSome then .error .osError else .ok (fsSet fs name data))
  else if mode.contains '+' then
    (match fsGet fs name with
     | none => .error .fileNotFound
     | some old => .ok (fsSet fs name (data ++ old.drop data.length)))
  else .error .osError

inductive WriteRes where
  | ok : WriteRes                    -- written, nothing printed
  | cantWrite : WriteRes             -- "Could not write to file: …" printed
  | raised (e : PyErr) : WriteRes    -- the exception escapes
deriving DecidableEq

/-- `write_json_to_file` (bisc.py) -/
def writeJson (cfg : Cfg) (fs : FS) (name : Str) (d : Dataset) : FS × WriteRes :=
  match writeFile cfg.writeMode fs name (dumps d) with
  | .ok fs' => (fs', .ok)
  | .error e => (fs, if caught cfg.writeCaught e then .cantWrite else .raised e)

/-- `f.readline()` -/
def firstLine : Str → Str
  | [] => []
  | c :: cs => if c = '\n' then [c] else c :: firstLine cs

inductive ReadRes where
  | ok (d : Dataset) : ReadRes      -- a dictionary of the BiSC shape, nothing printed
  | invalid : ReadRes               -- "File is invalid: …" printed, `{}` returned
  | garbage : ReadRes               -- a dictionary that is not of the BiSC shape, nothing printed
  | raised (e : PyErr) : ReadRes    -- the exception escapes
deriving DecidableEq

def dotJson : Str := ['.', 'j', 's', 'o', 'n']

def handleRead (cfg : Cfg) (e : PyErr) : ReadRes :=
  if caught cfg.readCaught e then .invalid else .raised e

/-- `read_bisc_file(path)` (bisc.py) -/
def readBisc (cfg : Cfg) (fs : FS) (path : Str) : ReadRes :=
  match fsGet fs (path ++ dotJson) with
  | none => handleRead cfg .fileNotFound
  | some content =>
    match fromJsonStr cfg.validateShape (if cfg.readOneLine then firstLine content else content) with
    | .ok d => .ok d
    | .garbage => .garbage
    | .err e => handleRead cfg e

/-- `create_bisc_input(N, prop)` (bisc.py) -/
def createBiscInput (N : Nat) (prop : NSeq → Bool) : Dataset × Dataset :=
  ((List.range (N + 1)).map fun n => (n, (Model.permsLex n).filter prop),
   (List.range (N + 1)).map fun n => (n, (Model.permsLex n).filter fun p => !prop p))

def goodName (info : Str) (n : Nat) : Str :=
  info ++ ['_', 'g', 'o', 'o', 'd', '_', 'l', 'e', 'n'] ++ natDigits n

def badName (info : Str) (n : Nat) : Str :=
  info ++ ['_', 'b', 'a', 'd', '_', 'l', 'e', 'n'] ++ natDigits n

/-- one call of the BiSC persistence API -/
inductive Op where
  | write (name : Str) (d : Dataset) : Op                 -- write_json_to_file(d, name)
  | writeBisc (info : Str) (n : Nat) (prop : NSeq → Bool) : Op   -- write_bisc_files(n, prop, info)
  | read (path : Str) : Op                                -- read_bisc_file(path)

/-- the file writes an operation performs, in order -/
def Op.writes : Op → List (Str × Dataset)
  | .write name d => [(name, d)]
  | .writeBisc info n prop =>
      [(goodName info n ++ dotJson, (createBiscInput n prop).1),
       (badName info n ++ dotJson, (createBiscInput n prop).2)]
  | .read _ => []

def applyWrites (cfg : Cfg) (fs : FS) : List (Str × Dataset) → FS
  | [] => fs
  | (name, d) :: ws => applyWrites cfg (writeJson cfg fs name d).1 ws

inductive Out where
  | wrote (oks : List WriteRes) : Out
  | readRes (r : ReadRes) : Out

/-- statuses of a list of writes -/
def writeStatuses (cfg : Cfg) (fs : FS) : List (Str × Dataset) → List WriteRes
  | [] => []
  | (name, d) :: ws => (writeJson cfg fs name d).2 :: writeStatuses cfg (writeJson cfg fs name d).1 ws

def step (cfg : Cfg) (fs : FS) : Op → FS × Out
  | .read path => (fs, .readRes (readBisc cfg fs path))
  | op => (applyWrites cfg fs op.writes, .wrote (writeStatuses cfg fs op.writes))

def run (cfg : Cfg) (fs : FS) : List Op → FS × List Out
  | [] => (fs, [])
  | op :: ops =>
    ((run cfg (step cfg fs op).1 ops).1, (step cfg fs op).2 :: (run cfg (step cfg fs op).1 ops).2)

/-- the file system after a history (reads do not change it) -/
def exec (cfg : Cfg) (fs : FS) (ops : List Op) : FS := applyWrites cfg fs (ops.flatMap Op.writes)

/-- the abstract map semantics of the property text: the data set last written to a file name -/
def lastWritten (ops : List Op) (name : Str) : Option Dataset :=
  ((ops.flatMap Op.writes).reverse.find? fun w => w.1 = name).map (·.2)

/-! ## the automaton database -/

inductive Content (A : Type) where
  | good (a : A) : Content A     -- `repr` of an automaton on the first line
  | junk : Content A             -- anything `eval` rejects (the harness uses an empty file)
deriving DecidableEq

structure DB (A : Type) where
  files : List (Str × Content A)
  cache : List (NSeq × A)

/-- `dfa_db/S{len(perm)}/{''.join(str(i) for i in perm)}.txt` without the constant parts -/
def dbKey (p : NSeq) : Str := natDigits p.length ++ '/' :: p.flatMap natDigits

def cacheGet {A : Type} : List (NSeq × A) → NSeq → Option A
  | [], _ => none
  | (k, v) :: rest, p => if k = p then some v else cacheGet rest p

/-- `store_dfa_for_perm(perm, in_dfa)` (pin_words.py); `mk` is `make_dfa_for_perm` -/
def store {A : Type} (cfg : Cfg) (mk : NSeq → A) (db : DB A) (p : NSeq) (x : Option A) : DB A :=
  if cfg.storeWriteOnce && (fsGet db.files (dbKey p)).isSome then db
  else { db with files := fsSet db.files (dbKey p) (.good (x.getD (mk p))) }

/-- what `load_dfa_for_perm` does on a cache miss -/
def loadMiss {A : Type} (cfg : Cfg) (mk : NSeq → A) (db : DB A) (p : NSeq) : DB A × Except PyErr A :=
  let db1 := if (fsGet db.files (dbKey p)).isSome then db else store cfg mk db p none
  match fsGet db1.files (dbKey p) with
  | some (.good a) => ({ db1 with cache := if cfg.loadMemo then (p, a) :: db1.cache else db1.cache }, .ok a)
  | some .junk => (db1, .error .syntaxError)
  | none => (db1, .error .fileNotFound)

/-- `load_dfa_for_perm(perm)` (pin_words.py) under `lru_cache` -/
def load {A : Type} (cfg : Cfg) (mk : NSeq → A) (db : DB A) (p : NSeq) : DB A × Except PyErr A :=
  match (if cfg.loadMemo then cacheGet db.cache p else none) with
  | some a => (db, .ok a)
  | none => loadMiss cfg mk db p

/-- `create_dfa_db_for_length(n)` (pin_words.py) -/
def create {A : Type} (cfg : Cfg) (mk : NSeq → A) (db : DB A) (n : Nat) : DB A :=
  (Model.permsLex n).foldl (fun d p => store cfg mk d p none) db

inductive DbOp (A : Type) where
  | store (p : NSeq) (x : Option A) : DbOp A
  | load (p : NSeq) : DbOp A
  | create (n : Nat) : DbOp A
  | restart : DbOp A                -- a new process: the `lru_cache` is empty again
  | corrupt (p : NSeq) : DbOp A     -- environment: the file of `p` is replaced by an empty one

def dbStep {A : Type} (cfg : Cfg) (mk : NSeq → A) (db : DB A) : DbOp A → DB A × Option (Except PyErr A)
  | .store p x => (store cfg mk db p x, none)
  | .load p => ((load cfg mk db p).1, some (load cfg mk db p).2)
  | .create n => (create cfg mk db n, none)
  | .restart => ({ db with cache := [] }, none)
  | .corrupt p => ({ db with files := fsSet db.files (dbKey p) .junk }, none)

def dbRun {A : Type} (cfg : Cfg) (mk : NSeq → A) (db : DB A) : List (DbOp A) → DB A × List (Option (Except PyErr A))
  | [] => (db, [])
  | op :: ops =>
    ((dbRun cfg mk (dbStep cfg mk db op).1 ops).1,
     (dbStep cfg mk db op).2 :: (dbRun cfg mk (dbStep cfg mk db op).1 ops).2)

/-- `make_dfa_for_basis_from_db(basis)`: loads every element of the sorted basis; the result is the
    union of what was loaded -/
def loadBasis {A : Type} (cfg : Cfg) (mk : NSeq → A) (db : DB A) : List NSeq → DB A × Except PyErr (List A)
  | [] => (db, .ok [])
  | p :: ps =>
    match (load cfg mk db p).2 with
    | .error e => ((load cfg mk db p).1, .error e)
    | .ok a =>
      match (loadBasis cfg mk (load cfg mk db p).1 ps).2 with
      | .error e => ((loadBasis cfg mk (load cfg mk db p).1 ps).1, .error e)
      | .ok l => ((loadBasis cfg mk (load cfg mk db p).1 ps).1, .ok (a :: l))

end Model.C20
