import PermutaModel.Model.C02
/-! C07 small-step model of threads querying one shared `Av` object (permset.py:188-191):

    def _get_level(self, level_number):
        with Av._CACHE_LOCK:
            self._ensure_level(level_number)
        return self.cache[level_number]

  A thread that wants level `n` (1) acquires the lock, (2) performs the writes of `_ensure_level`
  one shared-memory mutation at a time (append a finished level, replace a level by its compacted
  copy), (3) releases the lock, (4) reads `self.cache[n]`.  A schedule is a list of thread ids;
  a blocked thread stutters. -/
open Proto

namespace Model.C07
open Model.C02

/-- successive caches while `_ensure_level_classical_pattern_basis` appends `k` levels -/
def buildTrace (b : List NSeq) : Nat → List Level → Except Err (List (List Level))
  | 0, _ => .ok []
  | k+1, c =>
    match buildOne b c with
    | .error e => .error e
    | .ok c' =>
      match buildTrace b k c' with
      | .error e => .error e
      | .ok rest => .ok (c' :: rest)

/-- successive caches while `cache.extend(...)` appends the mesh levels one by one -/
def meshTrace (b : List Mesh) : Nat → List Level → List (List Level)
  | 0, _ => []
  | k+1, c => (c ++ [meshLevel b c.length]) :: meshTrace b k (c ++ [meshLevel b c.length])

/-- successive caches while the compaction loop replaces levels `start … levelNumber-2` -/
def compactTrace (c : List Level) (start levelNumber : Nat) : List (List Level) :=
  (List.range' (start + 2) (levelNumber - (start + 1))).map fun L => compact c start L

/-- every intermediate state of `_ensure_level(levelNumber)` started from `o` (the last one is
    the state in which the lock is released) -/
def ensureTrace (o : AvObj) (levelNumber : Nat) : Except Err (List AvObj) :=
  match o.basis with
  | .classical b =>
    match buildTrace b (levelNumber + 1 - o.cache.length) o.cache with
    | .error e => .error e
    | .ok tr =>
      .ok ((tr ++ compactTrace (tr.getLastD o.cache) (o.cache.length - 2) levelNumber).map
        fun c => { o with cache := c })
  | .mesh b =>
    let tr := meshTrace b (levelNumber + 1 - o.cache.length) o.cache
    .ok ((tr ++ compactTrace (tr.getLastD o.cache) (o.cache.length - 2) levelNumber).map
      fun c => { o with cache := c })

inductive Phase where
  | idle
  /-- inside the critical section for level `n`; `plan` = writes still to perform -/
  | holding (n : Nat) (plan : List AvObj)
  /-- lock released, about to read `self.cache[n]` -/
  | reading (n : Nat)
  | failed (e : Err)
deriving Repr

structure Thread where
  todo : List Nat
  phase : Phase
  got : List (Nat × List NSeq)   -- (level, keys read)
deriving Repr

structure Sys where
  obj : AvObj
  lock : Option Nat
  threads : List Thread
deriving Repr

def Sys.setThread (s : Sys) (tid : Nat) (t : Thread) : Sys := { s with threads := s.threads.set tid t }

/-- one step of thread `tid` under the lock discipline of the source
    (`_ensure_level` inside `with Av._CACHE_LOCK`, result read afterwards) -/
def step (s : Sys) (tid : Nat) : Sys :=
  match s.threads[tid]? with
  | none => s
  | some t =>
    match t.phase with
    | .failed _ => s
    | .idle =>
      match t.todo with
      | [] => s
      | n :: rest =>
        match s.lock with
        | some _ => s                                   -- blocked in `with`: stutter
        | none =>
          match ensureTrace s.obj n with
          | .error e => s.setThread tid { t with phase := .failed e }
          | .ok plan => { s with lock := some tid }.setThread tid { t with todo := rest, phase := .holding n plan }
    | .holding n (w :: ws) => { s with obj := w }.setThread tid { t with phase := .holding n ws }
    | .holding n [] => { s with lock := none }.setThread tid { t with phase := .reading n }
    | .reading n =>
      s.setThread tid { t with phase := .idle, got := t.got ++ [(n, (s.obj.cache.getD n []).keys)] }

def run (s : Sys) (sched : List Nat) : Sys := sched.foldl step s

/-- the same machine *without* mutual exclusion (used only to show that the model can exhibit
    the failure the lock prevents) -/
def stepNoLock (s : Sys) (tid : Nat) : Sys :=
  match s.threads[tid]? with
  | none => s
  | some t =>
    match t.phase with
    | .failed _ => s
    | .idle =>
      match t.todo with
      | [] => s
      | n :: rest =>
        match ensureTrace s.obj n with
        | .error e => s.setThread tid { t with phase := .failed e }
        | .ok plan => s.setThread tid { t with todo := rest, phase := .holding n plan }
    | .holding n (w :: ws) => { s with obj := w }.setThread tid { t with phase := .holding n ws }
    | .holding n [] => s.setThread tid { t with phase := .reading n }
    | .reading n =>
      s.setThread tid { t with phase := .idle, got := t.got ++ [(n, (s.obj.cache.getD n []).keys)] }

def runNoLock (s : Sys) (sched : List Nat) : Sys := sched.foldl stepNoLock s

/-- initial system: threads with their lists of levels to fetch, sharing `o` -/
def initSys (o : AvObj) (todos : List (List Nat)) : Sys :=
  ⟨o, none, todos.map fun td => ⟨td, .idle, []⟩⟩

/-- levels fetched by a query: `count n`, `of_length n`, `σ in av` fetch one level;
    `up_to_length n` fetches `0 … n` -/
def queryLevels (kind : String) (n : Nat) : List Nat :=
  if kind == "U" || kind == "P" then List.range (n + 1) else [n]

/-- a fair canonical schedule realising a given order of lock acquisitions: the thread whose
    turn it is runs until its read is done (`fuel` steps each) -/
def scheduleOfAcq (acq : List Nat) (fuel : Nat) : List Nat := acq.flatMap fun t => List.replicate fuel t

end Model.C07
