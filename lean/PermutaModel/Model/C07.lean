import PermutaModel.Model.C02
import PermutaModel.Generated.Tables
/-! C07 small-step model of threads querying one shared `Av` object (permset.py:188-191):

    def _get_level(self, level_number):
        with Av._CACHE_LOCK:
            self._ensure_level(level_number)
        return self.cache[level_number]

  A thread that wants level `n` (1) acquires the lock, (2) performs the writes of `_ensure_level`
  one shared-memory mutation at a time (append a finished level, replace a level by its compacted
  copy), (3) releases the lock, (4) reads `self.cache[n]`.  A schedule is a list of thread ids;
  a blocked thread stutters.

  The machine is parameterised by the lock discipline `Disc` found in the source: with `fast` the
  function may start with the double-checked-locking fast path

        if <test implying level_number < len(self.cache)>:
            return self.cache[level_number]

  in which case a thread whose level already exists goes straight to (4) without the lock (and without
  waiting for a holder); a thread whose test failed is committed to the locked path (`waiting`). -/
open Proto

namespace Model.C07
open Model.C02

/-- successive caches while `_ensure_level_classical_pattern_basis` appends `k` levels -/
def buildTrace (b : List NSeq) : Nat → List Level → Except Err (List (List Level))
  | 0, _ => .ok []
  | k+1, c =>
    match buildOne b c with
    | .error e => .error e
    | .ok c' =>
      match buildTrace b k c' with
      | .error e => .error e
      | .ok rest => .ok (c' :: rest)

/-- successive caches while `cache.extend(...)` appends the mesh levels one by one -/
def meshTrace (b : List Mesh) : Nat → List Level → List (List Level)
  | 0, _ => []
  | k+1, c => (c ++ [meshLevel b c.length]) :: meshTrace b k (c ++ [meshLevel b c.length])

/-- successive caches while the compaction loop replaces levels `start … levelNumber-2` -/
def compactTrace (c : List Level) (start levelNumber : Nat) : List (List Level) :=
  (List.range' (start + 2) (levelNumber - (start + 1))).map fun L => compact c start L

/-- every intermediate state of `_ensure_level(levelNumber)` started from `o` (the last one is
    the state in which the lock is released) -/
def ensureTrace (o : AvObj) (levelNumber : Nat) : Except Err (List AvObj) :=
  match o.basis with
  | .classical b =>
    match buildTrace b (levelNumber + 1 - o.cache.length) o.cache with
    | .error e => .error e
    | .ok tr =>
      .ok ((tr ++ compactTrace (tr.getLastD o.cache) (o.cache.length - 2) levelNumber).map
        fun c => { o with cache := c })
  | .mesh b =>
    let tr := meshTrace b (levelNumber + 1 - o.cache.length) o.cache
    .ok ((tr ++ compactTrace (tr.getLastD o.cache) (o.cache.length - 2) levelNumber).map
      fun c => { o with cache := c })

/-- how `_get_level` uses the lock.  `fast = false`: the plain discipline (`with LOCK: ensure` first, read
    afterwards).  `fast = true`: double-checked locking — the function starts with
    `if <test>: return self.cache[level_number]` and `guard n len` is the value of `<test>` for
    `level_number = n` when `len(self.cache) = len`; otherwise the locked path is taken. -/
structure Disc where
  fast : Bool
  guard : Nat → Nat → Bool

/-- the plain discipline (no lock-free path) -/
def Disc.locked : Disc := ⟨false, fun _ _ => false⟩

/-- discipline with the canonical guard `level_number < len(self.cache)` (for the natural numbers the
    machine works with, `isinstance(level_number, int) and 0 <= level_number` is true) -/
def Disc.ofFlag (fast : Bool) : Disc := ⟨fast, fun n len => decide (n < len)⟩

/-- soundness requirement on the lock-free test: it implies that the level exists -/
def Disc.OK (d : Disc) : Prop := ∀ n len, d.guard n len = true → n < len

theorem Disc.ofFlag_ok (fast : Bool) : (Disc.ofFlag fast).OK := by
  intro n len h
  simpa [Disc.ofFlag] using h

/-- **the discipline found in the source** (regenerated on every run): `Generated.lockFastPath` says whether
    `_get_level` starts with the lock-free fast path; its test is modelled by the canonical guard
    `level_number < len(self.cache)` — any further conjunct of the real test only makes it fire less often,
    which the theorems (stated for every guard that implies `n < len`) cover -/
def sourceDisc : Disc := Disc.ofFlag Generated.lockFastPath

theorem Disc.locked_ok : Disc.locked.OK := by
  intro n len h
  simp [Disc.locked] at h

inductive Phase where
  | idle
  /-- (fast discipline only) the lock-free test was false: committed to the locked path for level `n`,
      blocked in / about to execute `with LOCK` -/
  | waiting (n : Nat)
  /-- inside the critical section for level `n`; `plan` = writes still to perform -/
  | holding (n : Nat) (plan : List AvObj)
  /-- about to read `self.cache[n]` (lock released, or never taken on the lock-free path) -/
  | reading (n : Nat)
  | failed (e : Err)
deriving Repr

structure Thread where
  todo : List Nat
  phase : Phase
  got : List (Nat × List NSeq)   -- (level, keys read)
deriving Repr

structure Sys where
  obj : AvObj
  lock : Option Nat
  threads : List Thread
deriving Repr

def Sys.setThread (s : Sys) (tid : Nat) (t : Thread) : Sys := { s with threads := s.threads.set tid t }

/-- `with LOCK: self._ensure_level(n)` entered by thread `tid` (record `t`) whose remaining requests
    after `n` are `rest`: blocked (stutter) while the lock is held, otherwise the lock is taken and the
    writes of `_ensure_level` are planned -/
def tryAcquire (s : Sys) (tid : Nat) (t : Thread) (n : Nat) (rest : List Nat) : Sys :=
  match s.lock with
  | some _ => s                                   -- blocked in `with`: stutter
  | none =>
    match ensureTrace s.obj n with
    | .error e => s.setThread tid { t with todo := n :: rest, phase := .failed e }
    | .ok plan => { s with lock := some tid }.setThread tid { t with todo := rest, phase := .holding n plan }

/-- one step of thread `tid` under the lock discipline `d` of the source
    (`_ensure_level` inside `with Av._CACHE_LOCK`, result read afterwards; with `d.fast` an existing
    level is read without the lock, even while another thread holds it) -/
def step (d : Disc) (s : Sys) (tid : Nat) : Sys :=
  match s.threads[tid]? with
  | none => s
  | some t =>
    match t.phase with
    | .failed _ => s
    | .idle =>
      match t.todo with
      | [] => s
      | n :: rest =>
        match d.fast with
        | false => tryAcquire s tid t n rest
        | true =>
          match d.guard n s.obj.cache.length with
          | true => s.setThread tid { t with todo := rest, phase := .reading n }     -- lock-free path
          | false => s.setThread tid { t with todo := rest, phase := .waiting n }    -- locked path
    | .waiting n => tryAcquire s tid t n t.todo
    | .holding n (w :: ws) => { s with obj := w }.setThread tid { t with phase := .holding n ws }
    | .holding n [] => { s with lock := none }.setThread tid { t with phase := .reading n }
    | .reading n =>
      s.setThread tid { t with phase := .idle, got := t.got ++ [(n, (s.obj.cache.getD n []).keys)] }

def run (d : Disc) (s : Sys) (sched : List Nat) : Sys := sched.foldl (step d) s

/-- the same machine *without* mutual exclusion on the build path (used only to show that the model
    can exhibit the failure the lock prevents); the lock-free read of an existing level is kept -/
def stepNoLock (d : Disc) (s : Sys) (tid : Nat) : Sys :=
  match s.threads[tid]? with
  | none => s
  | some t =>
    match t.phase with
    | .failed _ => s
    | .waiting _ => s
    | .idle =>
      match t.todo with
      | [] => s
      | n :: rest =>
        match d.fast && d.guard n s.obj.cache.length with
        | true => s.setThread tid { t with todo := rest, phase := .reading n }
        | false =>
          match ensureTrace s.obj n with
          | .error e => s.setThread tid { t with phase := .failed e }
          | .ok plan => s.setThread tid { t with todo := rest, phase := .holding n plan }
    | .holding n (w :: ws) => { s with obj := w }.setThread tid { t with phase := .holding n ws }
    | .holding n [] => s.setThread tid { t with phase := .reading n }
    | .reading n =>
      s.setThread tid { t with phase := .idle, got := t.got ++ [(n, (s.obj.cache.getD n []).keys)] }

def runNoLock (d : Disc) (s : Sys) (sched : List Nat) : Sys := sched.foldl (stepNoLock d) s

/-- initial system: threads with their lists of levels to fetch, sharing `o` -/
def initSys (o : AvObj) (todos : List (List Nat)) : Sys :=
  ⟨o, none, todos.map fun td => ⟨td, .idle, []⟩⟩

/-- levels fetched by a query: `count n`, `of_length n`, `σ in av` fetch one level;
    `up_to_length n` fetches `0 … n` -/
def queryLevels (kind : String) (n : Nat) : List Nat :=
  if kind == "U" || kind == "P" then List.range (n + 1) else [n]

/-- a fair canonical schedule realising a given order of lock acquisitions: the thread whose
    turn it is runs until its read is done (`fuel` steps each) -/
def scheduleOfAcq (acq : List Nat) (fuel : Nat) : List Nat := acq.flatMap fun t => List.replicate fuel t

end Model.C07
