import PermutaModel.Basic
/-!
# C14 — model of `permuta/permutils/pin_words.py` (non-automata part) and `pinword_util.py`

Import-free and executable.  Conventions:

* a pin word is a `List Letter`; the eight letters of the code's alphabet are constructors, every
  other character `c` is `X c` (it is "not in QUADS", "not in DIRS", a `KeyError` in every letter
  dictionary – exactly how the Python code treats it);
* coordinates are `Rat` (core Lean), mirroring `fractions.Fraction`;
* `pre_perm` is kept **newest point first** (`last :: earlier`, the origin is the last element):
  the code only uses `pre_perm[-1]`, `pre_perm[:-1]`, order-insensitive `min`/`max`, `pop(0)` (the
  origin) and a final `sort()`, so the representation is observationally the same;
* `assert False` → `Err.assertion`, `max([])`/`min([])` → `Err.valueError`, a missing dictionary
  key → `Err.keyError`, `word[i]` out of range → `Err.indexError`;
* generators are lazy in Python: a generator that yields `a₀ … a_k` and then raises is the pair
  `([a₀,…,a_k], some err)` (`Gen`), so that `next(gen, False)` (which never sees an error behind
  the first yield) is modelled exactly;
* arguments of type `int` are `Nat` (negative lengths / indices are outside the model).
-/
open Proto

namespace Model.C14

/-- the alphabet `QUADS = "1234"`, `DIRS = "ULDR"`, and anything else -/
inductive Letter where
  | q1 | q2 | q3 | q4 | U | L | D | R
  | X (c : Char)
deriving DecidableEq, Repr

abbrev Word := List Letter

namespace Letter

/-- `char in QUADS` (pin_words.py:19) -/
def isQuad : Letter → Bool
  | q1 | q2 | q3 | q4 => true
  | _ => false

/-- `char in DIRS` (pin_words.py:18) -/
def isDir : Letter → Bool
  | U | L | D | R => true
  | _ => false

/-- `U`/`D` -/
def isVert : Letter → Bool
  | U | D => true
  | _ => false

/-- `L`/`R` -/
def isHoriz : Letter → Bool
  | L | R => true
  | _ => false

def toChar : Letter → Char
  | q1 => '1' | q2 => '2' | q3 => '3' | q4 => '4'
  | U => 'U' | L => 'L' | D => 'D' | R => 'R'
  | X c => c

def ofChar (c : Char) : Letter :=
  if c = '1' then q1 else if c = '2' then q2 else if c = '3' then q3 else if c = '4' then q4
  else if c = 'U' then U else if c = 'L' then L else if c = 'D' then D else if c = 'R' then R
  else X c

end Letter

open Letter

/-! ## `pinword_util.py` -/

abbrev Pt := Rat × Rat

/-- `max` of a non-empty list of fractions (callers guard emptiness: Python raises `ValueError`) -/
def maxL : List Rat → Rat
  | [] => 0
  | a :: rest => rest.foldl max a

def minL : List Rat → Rat
  | [] => 0
  | a :: rest => rest.foldl min a

/-- `PinWordUtil.max_x` … `min_y` (pinword_util.py:126-144): `min/max(pre_perm, key=…)[i]` is the
    extremal coordinate value -/
def maxX (p : List Pt) : Rat := maxL (p.map Prod.fst)
def minX (p : List Pt) : Rat := minL (p.map Prod.fst)
def maxY (p : List Pt) : Rat := maxL (p.map Prod.snd)
def minY (p : List Pt) : Rat := minL (p.map Prod.snd)

def half : Rat := 1 / 2

/-- table of the four numerals: `(xMax, yMax)`; `true` = "`max + one`", `false` = "`min - one`"
    (pinword_util.py `char_1 … char_4`).  Tied to the source by `C14.numeralTable_generated`. -/
def numeralTable : List (Letter × Bool × Bool) :=
  [(q1, true, true), (q2, false, true), (q3, false, false), (q4, true, false)]

/-- table of the four directions: `(vertical, positive)`: `U` tests `last_x` and moves to
    `max_y + one`, `L` tests `last_y` and moves to `min_x - one`, …
    Tied to the source by `C14.dirTable_generated`. -/
def dirTable : List (Letter × Bool × Bool) :=
  [(U, true, true), (L, false, false), (D, true, false), (R, false, true)]

/-- `max_? + one` / `min_? - one` -/
def beyond (pos : Bool) (vals : List Rat) : Rat :=
  if pos then maxL vals + 1 else minL vals - 1

/-- `char_1 … char_4`: an independent pin beyond everything on both axes.
    `pre_perm` is never empty (it contains the origin); for an empty list Python raises `ValueError`. -/
def charNumeral (xPos yPos : Bool) (pts : List Pt) : Except Err Pt :=
  if pts.isEmpty then .error .valueError
  else .ok (beyond xPos (pts.map Prod.fst), beyond yPos (pts.map Prod.snd))

/-- the common shape of `char_u/char_d` (on x) and `char_l/char_r` (on y):
    `last > max(init)` → midpoint with the max, `last < min(init)` → midpoint with the min,
    otherwise `assert False`; `max([])` on the origin-only list is a `ValueError` -/
def separate (lastV : Rat) (initV : List Rat) : Except Err Rat :=
  if initV.isEmpty then .error .valueError
  else if lastV > maxL initV then .ok (half * (lastV + maxL initV))
  else if lastV < minL initV then .ok (half * (lastV + minL initV))
  else .error .assertion

/-- `char_u`, `char_d` (vertical = true) and `char_l`, `char_r` (vertical = false) -/
def charDir (vert pos : Bool) (pts : List Pt) : Except Err Pt :=
  match pts with
  | [] => .error .indexError                      -- `pre_perm[-1]` (never happens: origin)
  | last :: init =>
    if vert then
      match separate last.1 (init.map Prod.fst) with
      | .error e => .error e
      | .ok x => .ok (x, beyond pos (pts.map Prod.snd))
    else
      match separate last.2 (init.map Prod.snd) with
      | .error e => .error e
      | .ok y => .ok (beyond pos (pts.map Prod.fst), y)

/-- `PinWordUtil.call`: dictionary dispatch; an unknown character is a `KeyError` -/
def call (c : Letter) (pts : List Pt) : Except Err Pt :=
  match c with
  | q1 => charNumeral true true pts
  | q2 => charNumeral false true pts
  | q3 => charNumeral false false pts
  | q4 => charNumeral true false pts
  | U => charDir true true pts
  | L => charDir false false pts
  | D => charDir true false pts
  | R => charDir false true pts
  | X _ => .error .keyError

/-! ## `PinWords.pinword_to_perm` (pin_words.py:25-52) -/

/-- one iteration of the `for char in word` loop, including the "coordinate is zero" assert -/
def stepPts (pts : List Pt) (c : Letter) : Except Err (List Pt) :=
  match call c pts with
  | .error e => .error e
  | .ok p => if p.1 = 0 ∨ p.2 = 0 then .error .assertion else .ok (p :: pts)

def buildPts : List Pt → Word → Except Err (List Pt)
  | pts, [] => .ok pts
  | pts, c :: w =>
    match stepPts pts c with
    | .error e => .error e
    | .ok pts' => buildPts pts' w

def origin : Pt := (0, 0)

/-- tuple order of Python on `(Fraction, Fraction)` -/
def ptLe (a b : Pt) : Bool := decide (a.1 < b.1) || (decide (a.1 = b.1) && decide (a.2 ≤ b.2))

/-- `bisect_left(sorted_y_coord, y)` on a sorted list = number of entries `< y` -/
def bisectLeft (sortedY : List Rat) (y : Rat) : Nat := sortedY.countP (fun z => decide (z < y))

/-- `pre_perm.pop(0); pre_perm.sort(); sorted_y = sorted(ys); perm = bisect_left ranks` -/
def permOfPts (pins : List Pt) : NSeq :=
  let sorted := pins.mergeSort ptLe
  let sortedY := (sorted.map Prod.snd).mergeSort (fun a b => decide (a ≤ b))
  sorted.map fun p => bisectLeft sortedY p.2

/-- the point list after the loop, newest first, origin last -/
def pinPoints (w : Word) : Except Err (List Pt) := buildPts [origin] w

def pinwordToPerm (w : Word) : Except Err NSeq :=
  match pinPoints w with
  | .error e => .error e
  | .ok pts => .ok (permOfPts pts.dropLast)

/-! ## the generator and the memoised tables (pin_words.py:54-116) -/

def snoc (w : Word) (c : Letter) : Word := w ++ [c]

/-- body of the `for word in …` loop of `pinwords_of_length` in yield order -/
def extend (word : Word) : List Word :=
  (if word.length > 0 ∧ word.getLast? ≠ some U ∧ word.getLast? ≠ some D
     then [snoc word U, snoc word D] else [])
  ++ (if word.length > 0 ∧ word.getLast? ≠ some R ∧ word.getLast? ≠ some L
     then [snoc word L, snoc word R] else [])
  ++ [snoc word q1, snoc word q2, snoc word q3, snoc word q4]

def pinwordsOfLength : Nat → List Word
  | 0 => [[]]
  | n + 1 => (pinwordsOfLength n).flatMap extend

/-- dictionary insert `d[k] = v` (keeps the position of an existing key) -/
def dictSet {κ ν} [DecidableEq κ] : List (κ × ν) → κ → ν → List (κ × ν)
  | [], k, v => [(k, v)]
  | (k', v') :: rest, k, v => if k' = k then (k', v) :: rest else (k', v') :: dictSet rest k v

/-- `{pinword: pinword_to_perm(pinword) for pinword in pinwords_of_length(length)}`: the keys are
    pairwise different (`C14.pinwordsOfLength_nodup`), so the dictionary is the list of pairs in
    generation order; an exception in any decode aborts the comprehension -/
def decodeAll : List Word → Except Err (List (Word × NSeq))
  | [] => .ok []
  | w :: ws =>
    match pinwordToPerm w with
    | .error e => .error e
    | .ok σ =>
      match decodeAll ws with
      | .error e => .error e
      | .ok t => .ok ((w, σ) :: t)

def pinwordToPermMapping (n : Nat) : Except Err (List (Word × NSeq)) :=
  decodeAll (pinwordsOfLength n)

/-- `res[val].add(key)` on a `defaultdict(set)`; sets are kept in insertion order -/
def addTo : List (NSeq × List Word) → NSeq → Word → List (NSeq × List Word)
  | [], σ, w => [(σ, [w])]
  | (τ, ws) :: rest, σ, w =>
    if τ = σ then (τ, if w ∈ ws then ws else ws ++ [w]) :: rest else (τ, ws) :: addTo rest σ w

def groupWords (tbl : List (Word × NSeq)) : List (NSeq × List Word) :=
  tbl.foldl (fun res kv => addTo res kv.2 kv.1) []

def permToPinwordMapping (n : Nat) : Except Err (List (NSeq × List Word)) :=
  match pinwordToPermMapping n with
  | .error e => .error e
  | .ok tbl => .ok (groupWords tbl)

/-- `is_strict_pinword` (the empty word is strict, as the code decides) -/
def isStrict : Word → Bool
  | [] => true
  | c :: rest => c.isQuad && rest.all isDir

def strictPinwordsOfLength (n : Nat) : List Word := (pinwordsOfLength n).filter isStrict

/-- `{k: {x for x in v if is_strict_pinword(x)} for k, v in original.items()}` (keys are kept
    even when their set becomes empty) -/
def strictFilter (tbl : List (NSeq × List Word)) : List (NSeq × List Word) :=
  tbl.map fun kv => (kv.1, kv.2.filter isStrict)

def permToStrictPinwordMapping (n : Nat) : Except Err (List (NSeq × List Word)) :=
  match permToPinwordMapping n with
  | .error e => .error e
  | .ok tbl => .ok (strictFilter tbl)

/-! ### the memoised tables as state (`lru_cache` + `defaultdict` mutation) -/

structure Caches where
  w2p : List (Nat × List (Word × NSeq)) := []
  p2w : List (Nat × List (NSeq × List Word)) := []
  p2sw : List (Nat × List (NSeq × List Word)) := []

/-- `pinword_to_perm_mapping(n)` through its `lru_cache` -/
def getW2P (s : Caches) (n : Nat) : Except Err (Caches × List (Word × NSeq)) :=
  match s.w2p.lookup n with
  | some t => .ok (s, t)
  | none =>
    match pinwordToPermMapping n with
    | .error e => .error e
    | .ok t => .ok ({ s with w2p := s.w2p ++ [(n, t)] }, t)

/-- `perm_to_pinword_mapping(n)` through its `lru_cache` (the cached object may have been mutated) -/
def getP2W (s : Caches) (n : Nat) : Except Err (Caches × List (NSeq × List Word)) :=
  match s.p2w.lookup n with
  | some t => .ok (s, t)
  | none =>
    match getW2P s n with
    | .error e => .error e
    | .ok (s', t) => .ok ({ s' with p2w := s'.p2w ++ [(n, groupWords t)] }, groupWords t)

def getP2SW (s : Caches) (n : Nat) : Except Err (Caches × List (NSeq × List Word)) :=
  match s.p2sw.lookup n with
  | some t => .ok (s, t)
  | none =>
    match getP2W s n with
    | .error e => .error e
    | .ok (s', t) => .ok ({ s' with p2sw := s'.p2sw ++ [(n, strictFilter t)] }, strictFilter t)

/-- `perm_to_pinword_mapping(n)[σ]`: `defaultdict.__getitem__` inserts an empty set for a missing
    key *into the cached table* (what `pinwords_for_basis` does) -/
def lookupP2W (s : Caches) (n : Nat) (σ : NSeq) : Except Err (Caches × List Word) :=
  match getP2W s n with
  | .error e => .error e
  | .ok (s', t) =>
    match t.lookup σ with
    | some ws => .ok (s', ws)
    | none => .ok ({ s' with p2w := dictSet s'.p2w n (t ++ [(σ, [])]) }, [])

/-- `perm_to_strict_pinword_mapping(n)[σ]`: a plain dict, `KeyError` when missing (the table has
    been computed and memoised by then) -/
def lookupP2SW (s : Caches) (n : Nat) (σ : NSeq) : Except Err (Caches × Except Err (List Word)) :=
  match getP2SW s n with
  | .error e => .error e
  | .ok (s', t) =>
    match t.lookup σ with
    | some ws => .ok (s', .ok ws)
    | none => .ok (s', .error .keyError)

/-- one observable call on the memoised tables -/
inductive TOp where
  | W (n : Nat) | P (n : Nat) | S (n : Nat) | L (n : Nat) (σ : NSeq) | G (n : Nat) (σ : NSeq)

inductive TOut where
  | w2p (t : List (Word × NSeq)) | p2w (t : List (NSeq × List Word)) | words (ws : List Word)
  | err (e : Err)

def stepT (s : Caches) : TOp → Caches × TOut
  | .W n => match getW2P s n with
    | .error e => (s, .err e)
    | .ok (s', t) => (s', .w2p t)
  | .P n => match getP2W s n with
    | .error e => (s, .err e)
    | .ok (s', t) => (s', .p2w t)
  | .S n => match getP2SW s n with
    | .error e => (s, .err e)
    | .ok (s', t) => (s', .p2w t)
  | .L n σ => match lookupP2W s n σ with
    | .error e => (s, .err e)
    | .ok (s', ws) => (s', .words ws)
  | .G n σ => match lookupP2SW s n σ with
    | .error e => (s, .err e)
    | .ok (s', .ok ws) => (s', .words ws)
    | .ok (s', .error e) => (s', .err e)

def runT : Caches → List TOp → List TOut
  | _, [] => []
  | s, op :: ops => (stepT s op).2 :: runT (stepT s op).1 ops

/-! ## factorisation and the translations (pin_words.py:118-209) -/

/-- `factor_pinword`: a factor starts at `position` (whatever letter is there) and takes the
    following run of direction letters -/
def factor : Word → List Word
  | [] => []
  | c :: rest => (c :: rest.takeWhile isDir) :: factor (rest.dropWhile isDir)
termination_by w => w.length
decreasing_by
  have := (List.dropWhile_sublist (l := rest) isDir).length_le
  simp only [List.length_cons]; omega

/-- `letter_dict = {"1": "RU", "2": "LU", "3": "LD", "4": "RD"}` (pin_words.py:157 and :184).
    Tied to the source by `C14.letterDict_generated`. -/
def letterDict : List (Letter × Letter × Letter) :=
  [(q1, R, U), (q2, L, U), (q3, L, D), (q4, R, D)]

/-- `opposite = {"U": "D", "D": "U", "L": "R", "R": "L"}` (pin_words.py:158) -/
def oppositeDict : List (Letter × Letter) := [(U, D), (D, U), (L, R), (R, L)]

/-- `sp_to_m` -/
def spToM (w : Word) : Except Err (List Word) :=
  match w with
  | [] => .ok [[]]
  | c :: rest =>
    match letterDict.lookup c with
    | none => .ok [w]                                     -- `word[0] not in QUADS`
    | some (a, b) =>
      match rest with
      | [] => .ok [[a, b], [b, a]]
      | d :: _ =>
        if b = d then .ok [b :: a :: rest]
        else
          match oppositeDict.lookup d with
          | none => .error .keyError                      -- `opposite[word[1]]`
          | some od => if b = od then .ok [b :: a :: rest] else .ok [a :: b :: rest]

/-- `rev_letter_dict` as built by the loop of `m_to_sp` (value, reversed value per key) -/
def revLetterDict : List (Word × Letter) :=
  letterDict.foldl (fun d e => dictSet (dictSet d [e.2.1, e.2.2] e.1) [e.2.2, e.2.1] e.1) []

/-- `m_to_sp`: `rev_letter_dict[word[0:2]] + word[2:]` -/
def mToSp (w : Word) : Except Err Word :=
  match revLetterDict.lookup (w.take 2) with
  | none => .error .keyError
  | some q => .ok (q :: w.drop 2)

/-- Python slice `w[a:b]` for `0 ≤ a`, `0 ≤ b` -/
def slice (w : Word) (a b : Nat) : Word := (w.take b).drop a

/-- `quadrant(word, ind)` for `ind ≥ 0`.  For `ind = 0` the code's `word[ind - 1]` is `word[-1]`
    (the last letter) and `word[ind - 1 : ind + 1]` is `word[len-1 : 1]`; mirrored literally. -/
def quadrant (w : Word) (ind : Nat) : Except Err Letter :=
  match w[ind]? with
  | none => .error .indexError
  | some c =>
    if c.isQuad then .ok c
    else
      let start := if ind = 0 then w.length - 1 else ind - 1
      match w[start]? with
      | none => .error .indexError
      | some p =>
        if p.isQuad then
          match spToM (slice w start (ind + 1)) with
          | .error e => .error e
          | .ok ms =>
            match mToSp ((ms.headD []).drop 1) with
            | .error e => .error e
            | .ok r => match r with
              | [] => .error .indexError
              | q :: _ => .ok q
        else
          match mToSp (slice w start (ind + 1)) with
          | .error e => .error e
          | .ok r => match r with
            | [] => .error .indexError
            | q :: _ => .ok q

/-! ## containment in words (pin_words.py:211-261) -/

/-- what a Python generator produces: the yielded values and, possibly, the exception that ends it -/
abbrev Gen (α : Type) := List α × Option Err

/-- the `if` of `pinword_occurrences_sp` for one `idx` (evaluation order: `quadrant(word, idx)`,
    `quadrant(u_word, 0)`, then – only if they are equal – the slice comparison) -/
def occSpTest (w u : Word) (idx : Nat) : Except Err Bool :=
  match quadrant w idx with
  | .error e => .error e
  | .ok a =>
    match quadrant u 0 with
    | .error e => .error e
    | .ok b => .ok (a = b && slice w (idx + 1) (idx + u.length) = u.drop 1)

def occSpOver (w u : Word) : List Nat → Gen Nat
  | [] => ([], none)
  | idx :: rest =>
    match occSpTest w u idx with
    | .error e => ([], some e)
    | .ok true =>
      let r := occSpOver w u rest
      (idx :: r.1, r.2)
    | .ok false => occSpOver w u rest

/-- `pinword_occurrences_sp(word, u_word, start_index)` -/
def occSp (w u : Word) (start : Nat := 0) : Gen Nat :=
  occSpOver w u (List.range' start (w.length - start))

/-- `next(gen, False) is not False` (note `0 is not False`) -/
def nonEmpty {α} (s : Gen α) : Except Err Bool :=
  match s with
  | (_ :: _, _) => .ok true
  | ([], some e) => .error e
  | ([], none) => .ok false

def containsSp (w u : Word) : Except Err Bool := nonEmpty (occSp w u)

/-- `for a in s: yield from f a` with exceptions ending everything -/
def bindOver {α β} (f : α → Gen β) (tailErr : Option Err) : List α → Gen β
  | [] => ([], tailErr)
  | a :: as =>
    match (f a).2 with
    | some e => ((f a).1, some e)
    | none =>
      let r := bindOver f tailErr as
      ((f a).1 ++ r.1, r.2)

def bindStream {α β} (s : Gen α) (f : α → Gen β) : Gen β := bindOver f s.2 s.1

/-- the local `rec` of `pinword_occurrences`; the remaining factors play the role of `j`.
    The next factor is searched from `occ + len(factor)`: consecutive factors may touch. -/
def occRec (w : Word) : List Word → Nat → List Nat → Gen (List Nat)
  | [], _, res => ([res], none)
  | f :: fs, i, res =>
    if i ≥ w.length then ([], none)
    else bindStream (occSp w f i) fun occ => occRec w fs (occ + f.length) (res ++ [occ])

/-- `pinword_occurrences(word, u_word)` -/
def occurrences (w u : Word) : Gen (List Nat) := occRec w (factor u) 0 []

/-- the `all(...)` of the fixed `pinword_contains` (pin_words.py:264-270, commit ff59958) for one
    occurrence tuple: `zip(occ, occ[1:], factors)` and, per triple,
    `nxt != cur + len(factor) or word[nxt] in QUADS`.  (`word[nxt]` cannot be out of range: the
    indices are yielded from `range(len(word))`; the model answers `false` there.) -/
def gapOK (w : Word) (fs : List Word) (occ : List Nat) : Bool :=
  (occ.zip ((occ.drop 1).zip fs)).all fun t =>
    t.2.1 != t.1 + t.2.2.length || ((w[t.2.1]?).map isQuad).getD false

/-- `pinword_contains` (after the fix): loop over `pinword_occurrences`, return `True` at the first
    tuple that passes the gap test, `False` when the generator is exhausted; an exception of the
    generator is seen only if no earlier tuple passed -/
def contains (w u : Word) : Except Err Bool :=
  match occurrences w u with
  | (l, none) => .ok (l.any (gapOK w (factor u)))
  | (l, some e) => if l.any (gapOK w (factor u)) then .ok true else .error e

/-- `pinword_contains` as it was before commit ff59958: any occurrence tuple counts
    (`next(gen, False) is not False`).  Kept to state what the fix changed. -/
def containsPreFix (w u : Word) : Except Err Bool := nonEmpty (occurrences w u)

/-- Theorem 3.13's gap condition written the other way round (a factor matched on a *direction*
    letter of `w` must not touch the previous factor).  Not a function of the code: the harness ops
    `pw_contnt` / `pw_pcontnt` apply it to the real `pinword_occurrences` output as an independent
    re-check of `pinword_contains`; `C14.contains_eq_containsNT` proves the two readings equal. -/
def nonTouching (w : Word) (fs : List Word) (occ : List Nat) : Bool :=
  (occ.zip ((occ.drop 1).zip fs)).all fun t =>
    !(t.2.1 == t.1 + t.2.2.length && ((w[t.2.1]?).map isDir).getD true)

/-! ## the property's containment reading, evaluated through the tables -/

def lexPerms : Nat → List NSeq
  | 0 => [[]]
  | n + 1 => (List.range (n + 1)).flatMap fun v =>
      (lexPerms n).map fun p => v :: p.map fun x => if x < v then x else x + 1

/-- the containment test with `nonTouching` as the filter (harness-side reading) -/
def containsNT (w u : Word) : Except Err Bool :=
  match occurrences w u with
  | (l, none) => .ok (l.any (nonTouching w (factor u)))
  | (l, some e) => if l.any (nonTouching w (factor u)) then .ok true else .error e

/-- for every `σ` of length `k` (lexicographic order): does some pin word of `σ` (looked up in
    `tbl`, the word → permutation table of length `k`) occur in `w` according to `pinword_contains`
    (`filt = false`) / according to the `nonTouching` filter over `pinword_occurrences` (`filt = true`) -/
def containsTableWith (tbl : List (Word × NSeq)) (w : Word) (k : Nat) (filt : Bool) :
    Except Err (List Bool) :=
  (lexPerms k).mapM fun σ =>
    (tbl.filter fun kv => kv.2 = σ).foldlM (fun acc kv =>
      if acc then .ok true
      else if filt then containsNT w kv.1
      else contains w kv.1) false

def containsTable (w : Word) (k : Nat) (filt : Bool) : Except Err (List Bool) :=
  match pinwordToPermMapping k with
  | .error e => .error e
  | .ok tbl => containsTableWith tbl w k filt

end Model.C14
