import PermutaModel.Model.C01
import PermutaModel.Spec.Basic
/-! Shared model of the basic `Perm` operations of perm.py (import-free, executable).
    Each definition cites the Python lines it mirrors.  Functions are meant for permutations
    (`IsPerm`); behaviour on other tuples is only claimed where stated. -/

namespace Model

/-- `Perm.identity` (perm.py:223) -/
def identity (n : Nat) : NSeq := List.range n

/-- `Perm.monotone_decreasing` (perm.py:237) -/
def monoDec (n : Nat) : NSeq := (List.range n).reverse

/-- `Perm.inverse` (perm.py:453): `result[val] = idx` -/
def inverse (p : NSeq) : NSeq := (List.range p.length).map fun v => p.idxOf v

/-- `Perm.reverse` (perm.py:469) -/
def reverse (p : NSeq) : NSeq := p.reverse

/-- `Perm.complement` (perm.py:480): `base - element` -/
def complement (p : NSeq) : NSeq := p.map fun v => p.length - 1 - v

/-- `Perm.reverse_complement` (perm.py:492) -/
def reverseComplement (p : NSeq) : NSeq := p.reverse.map fun v => p.length - 1 - v

/-- `rotate` with `times % 4 == 1` (perm.py:624-626): `result[val] = n - idx - 1` -/
def rotate1 (p : NSeq) : NSeq := (List.range p.length).map fun v => p.length - 1 - p.idxOf v

/-- `rotate` with `times % 4 == 3` (perm.py:627-629): `result[n - val - 1] = idx` -/
def rotate3 (p : NSeq) : NSeq := (List.range p.length).map fun j => p.idxOf (p.length - 1 - j)

/-- `Perm.rotate(times)` (perm.py:595-630); Python's `%` has the sign of the divisor = `Int.emod` here -/
def rotate (p : NSeq) (t : Int) : NSeq :=
  if t % 4 = 0 then p
  else if t % 4 = 2 then reverseComplement p
  else if t % 4 = 1 then rotate1 p
  else rotate3 p

/-- `Perm.flip_antidiagonal` (perm.py:578): `result[n - val - 1] = n - idx - 1` -/
def flipAntidiagonal (p : NSeq) : NSeq :=
  (List.range p.length).map fun j => p.length - 1 - p.idxOf (p.length - 1 - j)

/-- `flip_horizontal = complement`, `flip_vertical = reverse`, `flip_diagonal = inverse` (aliases) -/
abbrev flipHorizontal := complement
abbrev flipVertical := reverse
abbrev flipDiagonal := inverse

/-- `Perm.direct_sum` of two (perm.py:301) -/
def directSum (p q : NSeq) : NSeq := p ++ q.map (· + p.length)

/-- `Perm.skew_sum` of two (perm.py:317) -/
def skewSum (p q : NSeq) : NSeq := p.map (· + q.length) ++ q

/-- `Perm.to_standard` (perm.py:56-77): rank of each entry, ties broken left to right -/
def standardize (l : List Nat) : NSeq :=
  l.zipIdx.map fun vi => (l.zipIdx.filter fun wj => wj.1 < vi.1 || (wj.1 == vi.1 && wj.2 < vi.2)).length

/-- `Perm.remove(index)` (perm.py:385): drop the entry at `index` and close the gap in values -/
def removeAt (p : NSeq) (i : Nat) : NSeq :=
  let sel := p.getD i 0
  (p.filter (· != sel)).map fun v => if v < sel then v else v - 1

/-- `Perm.remove_element(selected)` (perm.py:406) -/
def removeElement (p : NSeq) (sel : Nat) : NSeq :=
  (p.filter (· != sel)).map fun v => if v < sel then v else v - 1

/-- `Perm.insert(index, new_element)` (perm.py:354), `index ≤ n+1`, `new_element ≤ n` -/
def insertAt (p : NSeq) (index v : Nat) : NSeq :=
  let f := fun w => if w < v then w else w + 1
  (p.take index).map f ++ [v] ++ (p.drop index).map f

/-- `Perm.is_increasing` / `is_decreasing` (perm.py:647, 658) -/
def isIncreasing (p : NSeq) : Bool := p == List.range p.length
def isDecreasing (p : NSeq) : Bool := p == (List.range p.length).reverse

/-- all arrangements of `l` (length `k`) in the order of `itertools.permutations` -/
def permsAux : Nat → List Nat → List (List Nat)
  | 0, _ => [[]]
  | k+1, l => l.flatMap fun x => (permsAux k (l.erase x)).map (x :: ·)

/-- `Perm.of_length n` (perm.py:184): all permutations of length `n`, lexicographically -/
def permsLex (n : Nat) : List NSeq := permsAux n (List.range n)

/-- `Perm.up_to_length n` (perm.py:194) -/
def permsUpTo (n : Nat) : List NSeq := (List.range (n+1)).flatMap permsLex

/-- `(len, tuple) <` of `Perm.__lt__` (perm.py:3018) -/
def permLt (a b : NSeq) : Bool := a.length < b.length || (a.length == b.length && lexLt a b)
def permLe (a b : NSeq) : Bool := permLt a b || a == b

/-- the eight symmetries in the order used by `all_syms` (perm.py:632): self, inverse, then for
    each of three successive rotations the rotation and its inverse -/
def allSymsList (p : NSeq) : List NSeq :=
  let r1 := rotate p 1
  let r2 := rotate r1 1
  let r3 := rotate r2 1
  [p, inverse p, r1, inverse r1, r2, inverse r2, r3, inverse r3]

end Model
