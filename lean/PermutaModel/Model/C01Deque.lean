import PermutaModel.Model.C01
/-! C01: literal model of `Perm.left_floor_and_ceiling` (perm.py:2657-2690), the rotating-deque
    algorithm that feeds `Perm._pattern_details`, and the search table built from it.

    The deque of `(val, idx)` pairs is a `List (Nat × Nat)` (front = head).  The three `while`
    loops only ever *rotate* the deque, so the state of a loop is periodic with period
    `len(deq)`: a loop that has not left after `len(deq)` rotations has returned to its initial
    state and never leaves.  `rotWhile` therefore runs the loop for at most `len(deq)`
    rotations and returns `none` exactly when the Python loop would spin forever
    (`Lemmas/C01Deque.lean`: `rotWhile_eq_none_iff`); this is a decision of termination, not an
    arbitrary fuel.  `lfcDeque_total` shows that `none` never happens, for *every* input
    sequence, permutation or not. -/

namespace Model

abbrev Dq := List (Nat × Nat)

/-- `deq.rotate(-1)`: `deq.append(deq.popleft())` -/
def rotL : Dq → Dq
  | [] => []
  | x :: xs => xs ++ [x]

/-- `deq.rotate(1)`: `deq.appendleft(deq.pop())` -/
def rotR (d : Dq) : Dq :=
  match d.getLast? with
  | none => []
  | some x => x :: d.dropLast

/-- `deq[0]` (the deque is non-empty whenever this is evaluated: `idx > 0`) -/
def front (d : Dq) : Nat × Nat := d.head?.getD (0, 0)
/-- `deq[-1]` -/
def back (d : Dq) : Nat × Nat := d.getLast?.getD (0, 0)

/-- `while c(deq): deq.rotate(±1)` run for at most `fuel` rotations; `none` = still inside the
    loop after `fuel` rotations -/
def rotWhile (c : Dq → Bool) (r : Dq → Dq) : Nat → Dq → Option Dq
  | 0, d => if c d then none else some d
  | f+1, d => if c d then rotWhile c r f (r d) else some d

structure DqState where
  deq : Dq
  smallest : Int
  biggest : Int
deriving Repr, DecidableEq

/-- loop condition `deq[0][0] != smallest` -/
def condSmallest (s : Int) (d : Dq) : Bool := ((front d).1 : Int) != s
/-- loop condition `deq[-1][0] != biggest` -/
def condBiggest (b : Int) (d : Dq) : Bool := ((back d).1 : Int) != b
/-- loop condition `not deq[-1][0] <= val <= deq[0][0]` -/
def condBetween (val : Nat) (d : Dq) : Bool := !(decide ((back d).1 ≤ val) && decide (val ≤ (front d).1))

/-- one iteration of `for idx, val in enumerate(self)`: new state and the yielded pair;
    `none` = the `while` loop of the branch taken does not terminate -/
def lfcStep (st : DqState) (idx val : Nat) : Option (DqState × (Int × Int)) :=
  if idx = 0 then
    some ({ deq := st.deq ++ [(val, idx)], smallest := val, biggest := val }, (-1, -1))
  else if (val : Int) < st.smallest then
    (rotWhile (condSmallest st.smallest) rotL st.deq.length st.deq).map fun d =>
      ({ deq := (val, idx) :: d, smallest := val, biggest := st.biggest }, (-1, ((front d).2 : Int)))
  else if (val : Int) > st.biggest then
    (rotWhile (condBiggest st.biggest) rotL st.deq.length st.deq).map fun d =>
      ({ deq := d ++ [(val, idx)], smallest := st.smallest, biggest := val }, (((back d).2 : Int), -1))
  else
    (rotWhile (condBetween val) rotR st.deq.length st.deq).map fun d =>
      ({ deq := (val, idx) :: d, smallest := st.smallest, biggest := st.biggest },
        (((back d).2 : Int), ((front d).2 : Int)))

/-- the `for` loop from position `idx` on -/
def lfcLoop : DqState → Nat → List Nat → Option (List (Int × Int))
  | _, _, [] => some []
  | st, idx, v :: vs =>
    match lfcStep st idx v with
    | none => none
    | some (st', y) => (lfcLoop st' (idx+1) vs).map (y :: ·)

/-- `list(self.left_floor_and_ceiling())` -/
def lfcDeque (π : NSeq) : Option (List (Int × Int)) :=
  lfcLoop { deq := [], smallest := -1, biggest := -1 } 0 π

/-- one entry of `_pattern_details` from `val` and the yielded `(floor, ceiling)` -/
def detailOf (π : NSeq) (val : Nat) (fc : Int × Int) : Details :=
  { lfi := if fc.1 = -1 then none else some fc.1.toNat,
    lci := if fc.2 = -1 then none else some fc.2.toNat,
    lbp := if fc.1 = -1 then val else val - π.getD fc.1.toNat 0,
    ubp := if fc.2 = -1 then π.length - val else π.getD fc.2.toNat 0 - val }

/-- `Perm._pattern_details` as the code computes it: `zip(self, self.left_floor_and_ceiling())` -/
def patternDetailsDeque (π : NSeq) : Option (List Details) :=
  (lfcDeque π).map fun l => List.zipWith (detailOf π) π l

/-- `occurrences_in` with the search table computed by the deque algorithm -/
def occurrencesInDeque (π σ : NSeq) : Option (List (List Nat)) :=
  if π.length = 0 then some [[]]
  else if π.length > σ.length then some []
  else (patternDetailsDeque π).map fun det => go σ det π.length 0 0 []

end Model
