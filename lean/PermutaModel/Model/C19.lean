import PermutaModel.Model.C13
import PermutaModel.Model.Mesh
/-! C19 model: `permuta/enumeration_strategies/*.py`.  Import-free and executable.  Mirrored as is:
    * `EnumerationStrategy.__init__` stores `frozenset(basis)` (a re-iterable container without repeats);
    * `EnumerationStrategyWithSymmetry.applies` tries the eight sets of `all_symmetry_sets` and stops at the
      first that works; `CoreStrategy._applies_to_symmetry` builds `Av.from_iterable(basis)` (`ValueError` for
      an empty basis / the empty permutation), tests `p not in perm_class` for every needed pattern and
      `is_valid_extension` for every other element – the second `all(...)` is evaluated even when the first is
      `False`;
    * the shape helpers `fstrip`, `bstrip`, `zero_plus_*`, `last_sum_component`, `last_skew_component` with
      their `assert len(perm) > 0` (`AssertionError`; `zero_plus_sumind` and the two
      `last_*_component` helpers are total);
    * `InsertionEncodingStrategy.applies` passes the *generator* `rotate_90_clockwise_set(self.basis)` to
      `is_insertion_encodable` (`oneShot = true`), which materialises it (C13);
    * `FinitelyManySimplesStrategy.applies` is `PinWords.has_finite_simples(basis)` (C16): an opaque Boolean
      input `hfs` of every function here.
    `p in Av(B)` is modelled as "`p` avoids every element of the stored basis" (C02 proves the level builder
    equal to that). -/

namespace Model.C19
open Model.C13 (Iter isInsEnc avBasis)
open Proto (Err)

/-! ## `Perm.is_sum_decomposable` / `is_skew_decomposable` (perm.py:705-736) -/

/-- `set(range(lo, hi)) == set(l)` -/
def setEqRange (lo hi : Nat) (l : List Nat) : Bool :=
  l.all (fun x => decide (lo ≤ x) && decide (x < hi)) && (List.range' lo (hi - lo)).all fun v => l.contains v

/-- `any(set(range(i)) == set(islice(self, i)) for i in range(1, len(self)))` -/
def isSumDecomposable (p : NSeq) : Bool :=
  (List.range' 1 (p.length - 1)).any fun i => setEqRange 0 i (p.take i)

/-- `any(set(range(n - i, n)) == set(islice(self, i)) for i in range(1, n))` -/
def isSkewDecomposable (p : NSeq) : Bool :=
  (List.range' 1 (p.length - 1)).any fun i => setEqRange (p.length - i) p.length (p.take i)

/-! ## shape helpers (core_strategies.py:50-108) -/

/-- `fstrip`: drop a leading `0` (and shift down) -/
def fstrip (p : NSeq) : Except Err NSeq :=
  if p.isEmpty then .error .assertion
  else if p.headD 0 = 0 then .ok (p.tail.map (· - 1))
  else .ok p

/-- `bstrip`: drop a trailing maximum -/
def bstrip (p : NSeq) : Except Err NSeq :=
  if p.isEmpty then .error .assertion
  else if p.getLastD 0 = p.length - 1 then .ok p.dropLast
  else .ok p

/-- `zero_plus_skewind`: `perm[0] == 0 and not fstrip(perm).skew_decomposable()` -/
def zeroPlusSkewind (p : NSeq) : Except Err Bool :=
  if p.isEmpty then .error .assertion
  else if p.headD 0 = 0 then
    match fstrip p with
    | .error e => .error e
    | .ok q => .ok (!isSkewDecomposable q)
  else .ok false

/-- `zero_plus_sumind`: `len(perm) > 0 and perm[0] == 0 and not fstrip(perm).sum_decomposable()` -/
def zeroPlusSumind (p : NSeq) : Except Err Bool :=
  if p.isEmpty then .ok false
  else if p.headD 0 = 0 then
    match fstrip p with
    | .error e => .error e
    | .ok q => .ok (!isSumDecomposable q)
  else .ok false

/-- `zero_plus_perm` -/
def zeroPlusPerm (p : NSeq) : Except Err Bool :=
  if p.isEmpty then .error .assertion else .ok (decide (p.headD 0 = 0))

/-- the `while comp != set(range(n - i, n))` loop of `last_sum_component`: smallest `i ≥ start` whose
    length-`i` suffix is the set of the `i` largest values (stops at `i = n` at the latest) -/
def lastSumIdx (p : NSeq) (i : Nat) : Nat :=
  if setEqRange (p.length - i) p.length (p.drop (p.length - i)) then i
  else if i < p.length then lastSumIdx p (i + 1)
  else i
termination_by p.length - i

/-- the loop of `last_skew_component`: smallest `i` whose length-`i` suffix is `{0, …, i-1}` -/
def lastSkewIdx (p : NSeq) (i : Nat) : Nat :=
  if setEqRange 0 i (p.drop (p.length - i)) then i
  else if i < p.length then lastSkewIdx p (i + 1)
  else i
termination_by p.length - i

/-- `last_sum_component` -/
def lastSumComponent (p : NSeq) : Except Err NSeq :=
  if p.isEmpty then .ok []
  else .ok (Model.standardize (p.drop (p.length - lastSumIdx p 1)))

/-- `last_skew_component` -/
def lastSkewComponent (p : NSeq) : Except Err NSeq :=
  if p.isEmpty then .ok []
  else .ok (Model.standardize (p.drop (p.length - lastSkewIdx p 1)))

/-- the shading shared by the two mesh patterns `_M_PATT` (core_strategies.py:191-193, 212-214) -/
def mShading : List Cell := [(0, 1), (0, 2), (1, 0), (1, 1), (1, 2), (2, 1), (2, 2)]

/-! ## the eight core strategies (core_strategies.py:111-237) -/

inductive Strat where
  | ruCu | rdCd | ruCuRdCd | ruCuCd | rdCdCu | rdCu | rd2134 | ru2143
deriving DecidableEq, Repr

def Strat.all : List Strat := [.ruCu, .rdCd, .ruCuRdCd, .ruCuCd, .rdCdCu, .rdCu, .rd2134, .ru2143]

/-- the Python class name -/
def Strat.name : Strat → String
  | .ruCu => "RuCuCoreStrategy"
  | .rdCd => "RdCdCoreStrategy"
  | .ruCuRdCd => "RuCuRdCdCoreStrategy"
  | .ruCuCd => "RuCuCdCoreStrategy"
  | .rdCdCu => "RdCdCuCoreStrategy"
  | .rdCu => "RdCuCoreStrategy"
  | .rd2134 => "Rd2134CoreStrategy"
  | .ru2143 => "Ru2143CoreStrategy"

/-- `patterns_needed`, read from the table regenerated from the source -/
def Strat.needed (s : Strat) : List NSeq := (Generated.coreStrategies.lookup s.name).getD []

/-- `Rd2134CoreStrategy.is_valid_extension` (core_strategies.py:199-205): `last_sum_component(fstrip(patt))`
    is computed first -/
def validRd2134 (p : NSeq) : Except Err Bool :=
  match fstrip p with
  | .error e => .error e
  | .ok q =>
    match lastSumComponent q with
    | .error e => .error e
    | .ok lc =>
      .ok (decide (p.headD 0 = 0) && !Model.containsMesh q ⟨[1, 0], mShading⟩ &&
           (!Model.avoidsAll lc [[0, 1]] || decide (lc.length = 1)))

/-- `Ru2143CoreStrategy.is_valid_extension`: `if patt[0] != 0: return False` first (`IndexError` on the
    empty permutation) -/
def validRu2143 (p : NSeq) : Except Err Bool :=
  if p.isEmpty then .error .indexError
  else if p.headD 0 ≠ 0 then .ok false
  else
  match fstrip p with
  | .error e => .error e
  | .ok q =>
    if Model.containsMesh q ⟨[0, 1], mShading⟩ then .ok false
    else
      match lastSkewComponent q with
      | .error e => .error e
      | .ok lc => .ok (!Model.avoidsAll lc [[1, 0]])

/-- `zero_plus_sumind(bstrip(patt))` -/
def sumindBstrip (p : NSeq) : Except Err Bool :=
  match bstrip p with
  | .error e => .error e
  | .ok q => zeroPlusSumind q

/-- `is_valid_extension` of each strategy -/
def Strat.valid (s : Strat) (p : NSeq) : Except Err Bool :=
  match s with
  | .ruCu => zeroPlusSkewind p
  | .rdCd => zeroPlusSumind p
  | .ruCuRdCd => zeroPlusPerm p
  | .ruCuCd => zeroPlusSkewind p
  | .rdCdCu => sumindBstrip p
  | .rdCu =>
    match zeroPlusSkewind p with
    | .error e => .error e
    | .ok false => .ok false
    | .ok true => sumindBstrip p
  | .rd2134 => validRd2134 p
  | .ru2143 => validRu2143 p

/-- `all(is_valid_extension(patt) for patt in …)`: stops at the first `False`, an exception propagates -/
def allValid (valid : NSeq → Except Err Bool) : List NSeq → Except Err Bool
  | [] => .ok true
  | p :: rest =>
    match valid p with
    | .error e => .error e
    | .ok false => .ok false
    | .ok true => allValid valid rest

/-- `CoreStrategy._applies_to_symmetry` (core_strategies.py:24-35) -/
def appliesToSym (s : Strat) (b : List NSeq) : Except Err Bool :=
  match avBasis b with
  | .error e => .error e
  | .ok basis =>
    match allValid s.valid (b.filter fun q => !s.needed.contains q) with
    | .error e => .error e
    | .ok ext => .ok (s.needed.all (fun p => !Model.avoidsAll p basis) && ext)

/-- the eight sets of `all_symmetry_sets` (symmetry.py:42-52), in the order they are added -/
def symSets (B : List NSeq) : List (List NSeq) :=
  [B, B.map Model.inverse,
   B.map (Model.rotate · 1), (B.map (Model.rotate · 1)).map Model.inverse,
   (B.map (Model.rotate · 1)).map (Model.rotate · 1),
   ((B.map (Model.rotate · 1)).map (Model.rotate · 1)).map Model.inverse,
   ((B.map (Model.rotate · 1)).map (Model.rotate · 1)).map (Model.rotate · 1),
   (((B.map (Model.rotate · 1)).map (Model.rotate · 1)).map (Model.rotate · 1)).map Model.inverse]

/-- `next((True for b in syms if f(b)), False)` -/
def anySym (f : List NSeq → Except Err Bool) : List (List NSeq) → Except Err Bool
  | [] => .ok false
  | b :: rest =>
    match f b with
    | .error e => .error e
    | .ok true => .ok true
    | .ok false => anySym f rest

/-- `CoreStrategy(basis).applies()` -/
def coreApplies (s : Strat) (B : List NSeq) : Except Err Bool := anySym (appliesToSym s) (symSets B.eraseDups)

/-- `InsertionEncodingStrategy(basis).applies()` (enumeration_strategies/insertion_encodable.py:9-14):
    the second argument is a generator -/
def insEncApplies (B : List NSeq) : Bool :=
  isInsEnc ⟨B.eraseDups, false⟩ || isInsEnc ⟨B.eraseDups.map (Model.rotate · 1), true⟩

/-- `strategy(basis).applies()` by class name; `hfs` = the verdict of `PinWords.has_finite_simples` -/
def appliesByName (name : String) (B : List NSeq) (hfs : Bool) : Except Err Bool :=
  if name == "InsertionEncodingStrategy" then .ok (insEncApplies B)
  else if name == "FinitelyManySimplesStrategy" then .ok hfs
  else
    match Strat.all.find? (fun s => s.name == name) with
    | some s => coreApplies s B
    | none => .error .keyError

/-- the loop of `find_strategies` over a list of strategy names -/
def collect (B : List NSeq) (hfs : Bool) : List String → Except Err (List String)
  | [] => .ok []
  | n :: rest =>
    match appliesByName n B hfs with
    | .error e => .error e
    | .ok a =>
      match collect B hfs rest with
      | .error e => .error e
      | .ok l => .ok (if a then n :: l else l)

/-- `find_strategies(basis, long_runnning)` (enumeration_strategies/__init__.py:24-40): class names of the
    strategies that apply, in list order -/
def findStrategies (B : List NSeq) (long : Bool) (hfs : Bool) : Except Err (List String) :=
  collect B hfs (if long then Generated.findStrategiesLong else Generated.findStrategiesQuick)

end Model.C19
