import PermutaModel.Model.Perm
import PermutaModel.Generated.Tables
/-! C13 model: `permutils/finite.py`, `permutils/polynomial.py`, `permutils/insertion_encodable.py`,
    the `Av.is_*` wrappers of `perm_sets/permset.py` and the `poly` / `insenc` command bodies of `cli.py`.
    Import-free and executable.  Quirks mirrored:
    * an *iterable argument* is an `Iter` descriptor (items in iteration order + "one-shot" flag): the
      container kinds of the harness map to it, and container independence is a statement about it
      (`is_finite` duplicates its argument with `tee`, `is_polynomial` and the one-sided insertion tests read it
      once, `is_insertion_encodable` materialises it - `basis = tuple(basis)` - before its two traversals);
    * the early `return True` inside the loops of `is_insertion_encodable_rightmost/_maximum` leaves the
      rest of the iterable unconsumed (the cursor is returned);
    * the two process-wide memo tables (`PolyPerms._CACHE`, `InsertionEncodablePerms._CACHE`) are explicit
      state (`…C` functions); the un-memoised functions are the ones the theorems talk about and
      `Props/C13` proves the memoised ones equal to them for every reachable table. -/

namespace Model.C13

/-- an iterable argument: what iterating yields, and whether a second iteration restarts -/
structure Iter where
  items : List NSeq
  oneShot : Bool
deriving Repr

/-! ## finite.py -/

/-- `is_finite` (finite.py:7-14): `tee` gives both scans the full sequence, also for one-shot iterators -/
def isFinite (it : Iter) : Bool :=
  it.items.any Model.isDecreasing && it.items.any Model.isIncreasing

/-! ## polynomial.py -/

/-- `PolyPerms._is_incr` (polynomial.py:93-97): consecutive entries increase -/
def isIncr : List Nat → Bool
  | a :: b :: t => decide (a < b) && isIncr (b :: t)
  | _ => true

/-- `PolyPerms._is_decr` (polynomial.py:87-91) -/
def isDecr : List Nat → Bool
  | a :: b :: t => decide (a > b) && isDecr (b :: t)
  | _ => true

/-- `PolyPerms._type_0_3` (polynomial.py:39-50); `base = 0`.  `_type_4_7` (52-63) is the same with `base = 4`. -/
def typeQuad (base : Nat) (s1 s2 : List Nat) : List Nat :=
  (if isIncr s1 then
      (if isIncr s2 then [base] else []) ++ (if isDecr s2 then [base + 1] else [])
    else []) ++
  (if isDecr s1 then
      (if isIncr s2 then [base + 2] else []) ++ (if isDecr s2 then [base + 3] else [])
    else [])

/-- `_of_type_8` (polynomial.py:99-109) on the *reversed* slice (`r = slice[::-1]`, so `r.head = slice[-1]`;
    the recursion on `slice[0:n-1]` / `slice[0:n-2]` is the recursion on the tail(s)) -/
def ofType8R : List Nat → Bool
  | [] => true
  | [_] => true
  | a :: b :: t =>
    if a = t.length + 1 then ofType8R (b :: t)
    else if a = t.length ∧ b = t.length + 1 then ofType8R t
    else false

def ofType8 (s : List Nat) : Bool := ofType8R s.reverse

/-- the yields of one split position `k` of `_find_type` (deque1 = first `k` entries, deque2 = the rest) -/
def splitTypes (p ip : NSeq) (k : Nat) : List Nat :=
  typeQuad 0 (p.take k) (p.drop k) ++ typeQuad 4 (ip.take k) (ip.drop k)

/-- `PolyPerms._find_type` (polynomial.py:65-85), in yield order -/
def findType (p : NSeq) : List Nat :=
  (List.range (p.length + 1)).flatMap (splitTypes p (Model.inverse p)) ++
  (if ofType8 p then [8] else []) ++
  (if ofType8 (Model.reverse p) then [9] else [])

/-- a Python `set`/`frozenset` of small integers built from a list: first occurrences kept -/
def distinct : List Nat → List Nat
  | [] => []
  | a :: t => if a ∈ t then distinct t else a :: distinct t

/-- `is_polynomial` (polynomial.py:111-117) without the memo table -/
def isPolynomial (it : Iter) : Bool :=
  (distinct (it.items.flatMap findType)).length == Generated.polyTypeCount

def isNonPolynomial (it : Iter) : Bool := !isPolynomial it

/-- `PolyPerms._CACHE` -/
abbrev TCache := List (NSeq × List Nat)

/-- `PolyPerms._types` (polynomial.py:30-36) -/
def typesC (c : TCache) (p : NSeq) : TCache × List Nat :=
  match c.lookup p with
  | some t => (c, t)
  | none => ((p, distinct (findType p)) :: c, distinct (findType p))

/-- the set comprehension of `is_polynomial`, threading the memo table -/
def polyGo (c : TCache) (acc : List Nat) : List NSeq → TCache × List Nat
  | [] => (c, acc)
  | p :: rest => polyGo (typesC c p).1 (acc ++ (typesC c p).2) rest

def isPolynomialC (c : TCache) (it : Iter) : TCache × Bool :=
  ((polyGo c [] it.items).1, (distinct (polyGo c [] it.items).2).length == Generated.polyTypeCount)

/-! ## insertion_encodable.py -/

/-- the test at position `i` of the four scans: `down = true` is `perm[i+1] < perm[i]`,
    `down = false` is `perm[i+1] > perm[i]` -/
def stepIs (down : Bool) (p : NSeq) (i : Nat) : Bool :=
  if down then decide (p.getD (i + 1) 0 < p.getD i 0) else decide (p.getD (i + 1) 0 > p.getD i 0)

/-- the common shape of `_is_*_next_*` (insertion_encodable.py:16-46):
    `not any(first(i) and any(second(j) for j in range(i + 1, n - 1)) for i in range(n - 1))` -/
def scan (first second : Bool) (p : NSeq) : Bool :=
  !((List.range (p.length - 1)).any fun i =>
      stepIs first p i && (List.range' (i + 1) (p.length - 1 - (i + 1))).any fun j => stepIs second p j)

def isIncrNextIncr (p : NSeq) : Bool := scan true true p    -- curr < prev … perm[j+1] < perm[j]
def isIncrNextDecr (p : NSeq) : Bool := scan true false p   -- curr < prev … perm[j+1] > perm[j]
def isDecrNextIncr (p : NSeq) : Bool := scan false true p   -- curr > prev … perm[j+1] < perm[j]
def isDecrNextDecr (p : NSeq) : Bool := scan false false p  -- curr > prev … perm[j+1] > perm[j]

/-- `_insertion_encodable_properties` without the memo (insertion_encodable.py:52-63):
    `sum(val << shift …)` over (incr-decr, incr-incr, decr-decr, decr-incr) -/
def props (p : NSeq) : Nat :=
  ((isIncrNextDecr p).toNat <<< 0) + ((isIncrNextIncr p).toNat <<< 1) +
  ((isDecrNextDecr p).toNat <<< 2) + ((isDecrNextIncr p).toNat <<< 3)

/-- `InsertionEncodablePerms._CACHE` -/
abbrev PCache := List (NSeq × Nat)

def propsC (c : PCache) (p : NSeq) : PCache × Nat :=
  match c.lookup p with
  | some v => (c, v)
  | none => ((p, props p) :: c, props p)

/-- the loop of `is_insertion_encodable_rightmost` (`rot = 0`) / `_maximum` (`rot = Generated.insEncRotate`)
    (insertion_encodable.py:66-86): returns the verdict and the unconsumed rest of the iterable -/
def encGo (rot : Int) (curr : Nat) : List NSeq → Bool × List NSeq
  | [] => (false, [])
  | p :: rest =>
    if (curr ||| props (Model.rotate p rot)) = Generated.insEncAllProperties then (true, rest)
    else encGo rot (curr ||| props (Model.rotate p rot)) rest

/-- the same loop threading the memo table -/
def encGoC (rot : Int) (c : PCache) (curr : Nat) : List NSeq → PCache × Bool × List NSeq
  | [] => (c, false, [])
  | p :: rest =>
    if (curr ||| (propsC c (Model.rotate p rot)).2) = Generated.insEncAllProperties then
      ((propsC c (Model.rotate p rot)).1, true, rest)
    else encGoC rot (propsC c (Model.rotate p rot)).1 (curr ||| (propsC c (Model.rotate p rot)).2) rest

def isRightmost (it : Iter) : Bool := (encGo 0 0 it.items).1
def isMaximum (it : Iter) : Bool := (encGo Generated.insEncRotate 0 it.items).1

/-- `is_insertion_encodable` (insertion_encodable.py:88-93): the argument is materialised once
    (`basis = tuple(basis)`), then `rightmost(basis) or maximum(basis)` -/
def isInsEnc (it : Iter) : Bool :=
  if (encGo 0 0 it.items).1 then true
  else (encGo Generated.insEncRotate 0 it.items).1

def isRightmostC (c : PCache) (it : Iter) : PCache × Bool :=
  ((encGoC 0 c 0 it.items).1, (encGoC 0 c 0 it.items).2.1)
def isMaximumC (c : PCache) (it : Iter) : PCache × Bool :=
  ((encGoC Generated.insEncRotate c 0 it.items).1, (encGoC Generated.insEncRotate c 0 it.items).2.1)

def isInsEncC (c : PCache) (it : Iter) : PCache × Bool :=
  if (encGoC 0 c 0 it.items).2.1 then ((encGoC 0 c 0 it.items).1, true)
  else
    ((encGoC Generated.insEncRotate (encGoC 0 c 0 it.items).1 0 it.items).1,
     (encGoC Generated.insEncRotate (encGoC 0 c 0 it.items).1 0 it.items).2.1)

/-! ## `Basis(*patts)` (basis.py:12-39) and the `Av` wrappers (permset.py:38-88) -/

/-- `Basis._pruner` loop: keep a pattern when it avoids everything kept so far -/
def pruneGo (acc : List NSeq) : List NSeq → List NSeq
  | [] => acc
  | p :: rest => if Model.avoidsAll p acc then pruneGo (acc ++ [p]) rest else pruneGo acc rest

/-- `Basis(*patts)`: `sorted` (by `(len, tuple)`), the empty-permutation shortcut, then the pruner -/
def basisOf (B : List NSeq) : List NSeq :=
  if B.isEmpty then []
  else if ((B.mergeSort fun a b => Model.permLe a b).headD []).isEmpty then [[]]
  else pruneGo [] (B.mergeSort fun a b => Model.permLe a b)

/-- `Av(basis)` / `Av.from_iterable` for classical patterns: the stored basis, or `ValueError`
    for the empty basis and for `Basis(Perm())` (permset.py:40-41) -/
def avCheck (b : List NSeq) : Except Proto.Err (List NSeq) :=
  if b.isEmpty || b == [[]] then .error .valueError else .ok b

/-- `Av.from_iterable(perms)` = `Av(Basis(*perms))` -/
def avBasis (B : List NSeq) : Except Proto.Err (List NSeq) := avCheck (basisOf B)

def avIsFinite (B : List NSeq) : Except Proto.Err Bool :=
  match avBasis B with
  | .error e => .error e
  | .ok b => .ok (isFinite ⟨b, false⟩)

def avIsPolynomial (B : List NSeq) : Except Proto.Err Bool :=
  match avBasis B with
  | .error e => .error e
  | .ok b => .ok (isPolynomial ⟨b, false⟩)

def avIsInsEnc (B : List NSeq) : Except Proto.Err Bool :=
  match avBasis B with
  | .error e => .error e
  | .ok b => .ok (isInsEnc ⟨b, false⟩)

/-- the three wrappers on a class whose basis holds a mesh pattern (permset.py:72-88):
    `NotImplementedError` (the `MeshBasis` is non-empty, so the constructor itself succeeds) -/
def avMeshVerdict : Except Proto.Err Bool := .error .notImplemented

/-! ## `cli.py` command bodies -/

/-- `Basis.from_string`: every digit group standardised (`Perm.to_standard`), then `Basis(*…)` -/
def basisFromDigits (groups : List (List Nat)) : List NSeq := basisOf (groups.map Model.standardize)

/-- `has_poly_growth` (cli.py:46-50): which of the two sentences is printed -/
def cliPoly (groups : List (List Nat)) : String :=
  if isPolynomial ⟨basisFromDigits groups, false⟩ then "poly" else "notpoly"

/-- `has_regular_insertion_encoding` (cli.py:29-37): `Av(basis)` first (may raise), then the sentences in
    print order: topmost, rightmost, none -/
def cliInsEnc (groups : List (List Nat)) : Except Proto.Err (List String) :=
  match avCheck (basisFromDigits groups) with
  | .error e => .error e
  | .ok _ =>
    .ok ((if isMaximum ⟨basisFromDigits groups, false⟩ then ["top"] else []) ++
         (if isRightmost ⟨basisFromDigits groups, false⟩ then ["right"] else []) ++
         (if !isInsEnc ⟨basisFromDigits groups, false⟩ then ["none"] else []))

/-! ## containers and the eight symmetric images (used by the driver and by `Props/C13`) -/

/-- how each Python container kind presents the same perms to a consumer -/
def container (kind : String) (B : List NSeq) : Iter :=
  if kind == "gen" || kind == "iter" then ⟨B, true⟩
  else if kind == "set" || kind == "frozenset" then ⟨B.eraseDups, false⟩
  else if kind == "basis" then ⟨basisOf B, false⟩
  else ⟨B, false⟩

/-- the eight symmetries as compositions of reverse, complement, inverse (fixed order) -/
def sym (k : Nat) (p : NSeq) : NSeq :=
  match k with
  | 0 => p
  | 1 => Model.reverse p
  | 2 => Model.complement p
  | 3 => Model.reverseComplement p
  | 4 => Model.inverse p
  | 5 => Model.reverse (Model.inverse p)
  | 6 => Model.complement (Model.inverse p)
  | _ => Model.reverseComplement (Model.inverse p)

end Model.C13
