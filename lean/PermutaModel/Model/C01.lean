import PermutaModel.Basic
/-! C01 model of `Perm.occurrences_in` (perm.py) and the executable spec. -/

namespace Spec

def subLen : Nat → List Nat → List (List Nat)
  | 0, _ => [[]]
  | _+1, [] => []
  | k+1, x :: xs => (subLen k xs).map (x :: ·) ++ subLen (k+1) xs

def combos (n k : Nat) : List (List Nat) := subLen k (List.range n)

def pick (σ : NSeq) (c : List Nat) : NSeq := c.map (fun i => σ.getD i 0)

/-- boolean order isomorphism of two sequences of equal length -/
def orderIsoB (a b : NSeq) : Bool :=
  a.length == b.length &&
  (List.range a.length).all fun i =>
    (List.range a.length).all fun j =>
      (decide (a.getD i 0 < a.getD j 0) == decide (b.getD i 0 < b.getD j 0))

def occurrences (π σ : NSeq) : List (List Nat) :=
  (combos σ.length π.length).filter fun c => orderIsoB π (pick σ c)

/-- the colours of the index tuple `c` match: `cσ[c[k]] = cπ[k]` for every slot `k < n`
    (`patt_colours[i] == self_colours[k]` of perm.py for every chosen `i = c[k]`) -/
def colourMatch (n : Nat) (cπ cσ : List Nat) (c : List Nat) : Bool :=
  (List.range n).all fun k => cσ.getD (c.getD k 0) 0 == cπ.getD k 0

/-- specification of the coloured listing: the occurrences whose colours match -/
def occurrencesC (π σ : NSeq) (cπ cσ : List Nat) : List (List Nat) :=
  (occurrences π σ).filter (colourMatch π.length cπ cσ)

end Spec

namespace Model

structure Details where
  lfi : Option Nat
  lci : Option Nat
  lbp : Nat
  ubp : Nat
deriving Repr, DecidableEq

/-- spec-level left floor: index `j < k` with the largest `π[j] < π[k]` -/
def leftFloor (π : NSeq) (k : Nat) : Option Nat :=
  (List.range k).foldl (fun best j =>
    if π.getD j 0 < π.getD k 0 then
      match best with
      | none => some j
      | some b => if π.getD b 0 < π.getD j 0 then some j else some b
    else best) none

def leftCeil (π : NSeq) (k : Nat) : Option Nat :=
  (List.range k).foldl (fun best j =>
    if π.getD k 0 < π.getD j 0 then
      match best with
      | none => some j
      | some b => if π.getD j 0 < π.getD b 0 then some j else some b
    else best) none

def patternDetails (π : NSeq) : List Details :=
  (List.range π.length).map fun k =>
    let v := π.getD k 0
    let f := leftFloor π k
    let c := leftCeil π k
    { lfi := f, lci := c,
      lbp := match f with | none => v | some j => v - π.getD j 0,
      ubp := match c with | none => π.length - v | some j => π.getD j 0 - v }

def lowerBound (σ : NSeq) (d : Details) (occ : List Nat) : Int :=
  match d.lfi with
  | none => d.lbp
  | some f => (σ.getD (occ.getD f 0) 0 : Int) + d.lbp

def upperBound (σ : NSeq) (d : Details) (occ : List Nat) : Int :=
  match d.lci with
  | none => (σ.length : Int) - d.ubp
  | some c => (σ.getD (occ.getD c 0) 0 : Int) - d.ubp

/-- the generator `occurrences(i, k)` of perm.py:2587-2636; `occ` = indices chosen so far -/
def fits (σ : NSeq) (det : List Details) (i k : Nat) (occ : List Nat) : Prop :=
  lowerBound σ (det.getD k ⟨none, none, 0, 0⟩) occ ≤ (σ.getD i 0 : Int) ∧
    (σ.getD i 0 : Int) ≤ upperBound σ (det.getD k ⟨none, none, 0, 0⟩) occ

instance (σ det i k occ) : Decidable (fits σ det i k occ) := by unfold fits; infer_instance

/-- the generator `occurrences(i, k)` of perm.py:2587-2636 in branch-normal form;
    `occ` = indices chosen so far -/
def go (σ : NSeq) (det : List Details) (n : Nat) (i k : Nat) (occ : List Nat) : List (List Nat) :=
  if σ.length - i < n - k then []
  else if i < σ.length then
    if fits σ det i k occ then
      if n - k = 1 then (occ ++ [i]) :: go σ det n (i+1) k occ
      else go σ det n (i+1) (k+1) (occ ++ [i]) ++ go σ det n (i+1) k occ
    else go σ det n (i+1) k occ
  else []
termination_by σ.length - i

def occurrencesIn (π σ : NSeq) : List (List Nat) :=
  if π.length = 0 then [[]]
  else if π.length > σ.length then []
  else go σ (patternDetails π) π.length 0 0 []

end Model


namespace Model

/-- coloured variant of `go`: position `i` may extend the occurrence at slot `k` only when
    `patt_colours[i] == self_colours[k]` (perm.py:2624-2627) -/
def goC (σ : NSeq) (det : List Details) (n : Nat) (cπ cσ : List Nat) (i k : Nat) (occ : List Nat) :
    List (List Nat) :=
  if σ.length - i < n - k then []
  else if i < σ.length then
    if cσ.getD i 0 = cπ.getD k 0 ∧ fits σ det i k occ then
      if n - k = 1 then (occ ++ [i]) :: goC σ det n cπ cσ (i+1) k occ
      else goC σ det n cπ cσ (i+1) (k+1) (occ ++ [i]) ++ goC σ det n cπ cσ (i+1) k occ
    else goC σ det n cπ cσ (i+1) k occ
  else []
termination_by σ.length - i

def occurrencesInC (π σ : NSeq) (cπ cσ : List Nat) : List (List Nat) :=
  if π.length = 0 then [[]]
  else if π.length > σ.length then []
  else goC σ (patternDetails π) π.length cπ cσ 0 0 []

/-- `Perm._contains` : `any(True for _ in patt.occurrences_in(self))` -/
def containsOne (σ π : NSeq) : Bool := !(occurrencesIn π σ).isEmpty
/-- `Perm.contains(*patts)` -/
def containsAll (σ : NSeq) (ps : List NSeq) : Bool := ps.all (containsOne σ)
/-- `Perm.avoids(*patts)` / `avoids_set` -/
def avoidsAll (σ : NSeq) (ps : List NSeq) : Bool := ps.all fun p => !containsOne σ p
/-- `Patt.count_occurrences_in` -/
def countOcc (π σ : NSeq) : Nat := (occurrencesIn π σ).length
/-- `Patt.contained_in(*patts)`, `Patt.avoided_by(*patts)` -/
def containedIn (π : NSeq) (ss : List NSeq) : Bool := ss.all fun s => containsOne s π
def avoidedBy (π : NSeq) (ss : List NSeq) : Bool := ss.all fun s => !containsOne s π

/-- `left_floor_and_ceiling` output convention: `-1` for "none" -/
def lfcOut (π : NSeq) : List (Int × Int) :=
  (List.range π.length).map fun k =>
    ((match leftFloor π k with | none => (-1 : Int) | some j => (j : Int)),
     (match leftCeil π k with | none => (-1 : Int) | some j => (j : Int)))

end Model

namespace Model

/-- a pattern object with its memoised search table (`Perm._cached_pattern_details`) -/
structure PattObj where
  perm : NSeq
  cache : Option (List Details)

/-- `Perm._pattern_details`: compute on first use, then reuse -/
def PattObj.details (o : PattObj) : PattObj × List Details :=
  match o.cache with
  | some d => (o, d)
  | none => ({ o with cache := some (patternDetails o.perm) }, patternDetails o.perm)

/-- `occurrences_in` on a pattern *object*: returns the (possibly updated) object and the listing -/
def PattObj.search (o : PattObj) (σ : NSeq) : PattObj × List (List Nat) :=
  if o.perm.length = 0 then (o, [[]])
  else if o.perm.length > σ.length then (o, [])
  else (o.details.1, go σ o.details.2 o.perm.length 0 0 [])

end Model
