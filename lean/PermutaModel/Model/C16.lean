import PermutaModel.Model.C15
import PermutaModel.Model.C04
/-!
# C16 — model of the "finitely many simples" decision (pin_words.py:398-476, permset.py:90-98,
finitely_many_simples.py, cli.py:54-61)

Import-free, executable.  The three pattern tables come from `Generated` (translator).
-/

namespace Model.C16
open Model Model.C15

/-- `all_symmetry_sets(perms)` (symmetry.py:41-51) is modelled by `Model.allSymmetrySetsList` (C04): the eight
    sorted tuples in the order of the code.  Python collects them in a set; the consumer only asks
    `any(... for sym in ...)`, so repetition and order of the sets are irrelevant. -/
abbrev symSets (T : List NSeq) : List (List NSeq) := allSymmetrySetsList T

/-- `all(any(x.contains(p) for p in sym) for x in basis)` -/
def blockedBy (sym : List NSeq) (B : List NSeq) : Bool :=
  B.all fun x => sym.any fun p => containsOne x p

/-- the common body of `has_finite_alternations` / `has_finite_wedges_type_1/2`:
    `for sym in all_symmetry_sets(T): if all(...): return False; return True` -/
def hasFiniteFamily (T : List NSeq) (B : List NSeq) : Bool :=
  !(symSets T).any fun sym => blockedBy sym B

def hasFiniteAlternations (B : List NSeq) : Bool := hasFiniteFamily Generated.c16_altBasis B
def hasFiniteWedges1 (B : List NSeq) : Bool := hasFiniteFamily Generated.c16_wedge1 B
def hasFiniteWedges2 (B : List NSeq) : Bool := hasFiniteFamily Generated.c16_wedge2 B

/-- `has_finite_special_simples` (pin_words.py:447-459), with its early returns -/
def hasFiniteSpecialSimples (B : List NSeq) : Bool :=
  if !hasFiniteAlternations B then false
  else if !hasFiniteWedges1 B then false
  else if !hasFiniteWedges2 B then false
  else true

/-- `has_finite_pinperms(basis, use_db, dfa)`: `dfa` given ⇒ it is used instead of the basis
    automaton; the database automaton is the model's own automaton (C15: `db_equiv`) -/
def hasFinitePinpermsWith (B : List NSeq) (_useDb : Bool) (dfa : Option DFA) : Bool :=
  match dfa with
  | some d => finitePinpermsOf d
  | none => hasFinitePinperms B

/-- `has_finite_simples(basis, use_db, check_all, dfa)` (pin_words.py:469-476) -/
def hasFiniteSimples (B : List NSeq) (useDb checkAll : Bool) (dfa : Option DFA) : Bool :=
  if !checkAll && !hasFiniteSpecialSimples B then false
  else hasFinitePinpermsWith B useDb dfa && hasFiniteSpecialSimples B

/-- insertion of `Basis._pruner` (basis.py:27-35): keep a pattern iff it avoids everything kept -/
def pruner : List NSeq → List NSeq → List NSeq
  | acc, [] => acc
  | acc, p :: ps => if avoidsAll p acc then pruner (acc ++ [p]) ps else pruner acc ps

/-- `Basis(*patts)` (basis.py:12-35): sorted by `(len, tuple)`, the empty permutation swallows
    everything, otherwise pruned -/
def basisOf (B : List NSeq) : List NSeq :=
  if B.isEmpty then []
  else
    let s := B.mergeSort permLe
    if (s.headD []).isEmpty then [s.headD []] else pruner [] s

/-- `is_finite(basis)` (finite.py) -/
def isFiniteClass (B : List NSeq) : Bool := B.any isDecreasing && B.any isIncreasing

/-- `Av(B).has_finitely_many_simples()` (permset.py:28-47, 90-98); the verdict of `is_polynomial`
    on the normalised basis is an input (`poly`, property C13) -/
def avHasFinitelyManySimples (B : List NSeq) (poly : Bool) : Except Proto.Err Bool :=
  let basis := basisOf B
  if basis.isEmpty || basis == [[]] then .error .valueError
  else .ok (isFiniteClass basis || poly || hasFiniteSimples basis false false none)

/-- `FinitelyManySimplesStrategy(B).applies()`: the basis is stored as a `frozenset` -/
def strategyApplies (B : List NSeq) : Bool := hasFiniteSimples B.eraseDups false false none

/-- `str(Perm)` (perm.py:3011-3016) -/
def permStr (p : NSeq) : String :=
  if p.isEmpty then "ε"
  else if p.length ≤ 10 then String.join (p.map toString)
  else String.join (p.map fun i => s!"({i})")

/-- digit groups of a string (`re.findall(r"\d+", s)`) as lists of digit values -/
def digitGroups (s : List Char) : List (List Nat) :=
  let r := s.foldl (fun (acc : List (List Nat) × List Nat) c =>
    if c.isDigit then (acc.1, acc.2 ++ [c.toNat - '0'.toNat])
    else if acc.2.isEmpty then acc else (acc.1 ++ [acc.2], [])) ([], [])
  if r.2.isEmpty then r.1 else r.1 ++ [r.2]

/-- `str(Av)` (permset.py:207) -/
def className (basis : List NSeq) : String := "Av(" ++ ",".intercalate (basis.map permStr) ++ ")"

/-- the two sentences of `permtools simple` (only the first ends with a full stop) -/
def cliLine (basis : List NSeq) (v : Bool) : String :=
  if v then s!"The class {className basis} has finitely many simples."
  else s!"The class {className basis} has infinitely many simples"

/-- body of `permtools simple` (cli.py:54-61): the printed line, or the exception -/
def cliSimple (arg : String) (poly : Bool) : Except Proto.Err String :=
  let basis := basisOf ((digitGroups arg.toList).map standardize)
  if basis.isEmpty || basis == [[]] then .error .valueError
  else .ok (cliLine basis (isFiniteClass basis || poly || hasFiniteSimples basis false false none))

end Model.C16
