import PermutaModel.Model.Mesh
/-! C04 model: the symmetries of mesh patterns with their cell maps (meshpatt.py:103-144, 193-242),
    `all_syms` for permutations and meshes as canonical (sorted, duplicate-free) listings, the `*_set`
    helpers, `all_symmetry_sets`, `lex_min` (permutils/symmetry.py) and the body of `permtools lexmin`
    (cli.py:41-44).  Import-free.  The permutation symmetries themselves live in `Model/Perm.lean`;
    here are in addition the *array-write* forms of the four loops of perm.py (inverse, rotate 1,
    rotate 3, flip_antidiagonal) with Python's index semantics (negative indices wrap, out of range
    raises `IndexError`), proved equal to the closed forms on permutations in `Props/C04.lean`. -/

namespace Model

/-! ## generic order helpers (Python tuple comparison) -/

/-- Python's tuple/list `<`: first differing position (by `==`) decides with the elements' `<`;
    a proper prefix is smaller -/
def lexBy {α} [DecidableEq α] (lt : α → α → Bool) : List α → List α → Bool
  | [], [] => false
  | [], _ :: _ => true
  | _ :: _, [] => false
  | a :: as, b :: bs => if a = b then lexBy lt as bs else lt a b

/-- `min(iterable)` for a strict order given as a Boolean `<`: keeps the current minimum unless the
    next element is strictly smaller (CPython semantics) -/
def minBy {α} (lt : α → α → Bool) : List α → Option α
  | [] => none
  | a :: as => some (as.foldl (fun m x => if lt x m then x else m) a)

/-- `<` on tuples of permutations, each compared by `Perm.__lt__` -/
def tupleLt (a b : List NSeq) : Bool := lexBy permLt a b
def tupleLe (a b : List NSeq) : Bool := tupleLt a b || a == b

/-- `sorted(perms)` -/
def sortPerms (l : List NSeq) : List NSeq := l.mergeSort permLe

/-- `<` on cells (Python tuples of two ints) -/
def cellLt (a b : Cell) : Bool := a.1 < b.1 || (a.1 == b.1 && a.2 < b.2)
def cellLe (a b : Cell) : Bool := cellLt a b || a == b
/-- `sorted(shading)` of a frozenset: duplicates removed, then sorted -/
def sortCells (l : List Cell) : List Cell := l.eraseDups.mergeSort cellLe

/-! ## array-write forms of the loops in perm.py -/

/-- `result[i] = v` on a Python list of length `n`: `0 ≤ i < n` direct, `-n ≤ i < 0` wraps,
    otherwise `IndexError` -/
def pyStore (r : List Nat) (i : Int) (v : Nat) : Except Proto.Err (List Nat) :=
  if 0 ≤ i ∧ i < r.length then .ok (r.set i.toNat v)
  else if i < 0 ∧ -(r.length : Int) ≤ i then .ok (r.set (r.length + i).toNat v)
  else .error .indexError

/-- run a list of writes, in order, on `[0] * n` -/
def pyWrites (n : Nat) (ws : List (Int × Nat)) : Except Proto.Err (List Nat) :=
  ws.foldlM (fun r w => pyStore r w.1 w.2) (List.replicate n 0)

/-- perm.py:464-467 `for idx, val in enumerate(self): result[val] = idx` -/
def inverseW (p : NSeq) : Except Proto.Err NSeq :=
  pyWrites p.length (p.zipIdx.map fun vi => ((vi.1 : Int), vi.2))

/-- perm.py:624-626 `result[val] = n - idx - 1` -/
def rotate1W (p : NSeq) : Except Proto.Err NSeq :=
  pyWrites p.length (p.zipIdx.map fun vi => ((vi.1 : Int), p.length - vi.2 - 1))

/-- perm.py:627-629 `result[n - val - 1] = idx` -/
def rotate3W (p : NSeq) : Except Proto.Err NSeq :=
  pyWrites p.length (p.zipIdx.map fun vi => ((p.length : Int) - vi.1 - 1, vi.2))

/-- perm.py:589-593 `result[n - val - 1] = n - idx - 1` -/
def flipAntidiagonalW (p : NSeq) : Except Proto.Err NSeq :=
  pyWrites p.length (p.zipIdx.map fun vi => ((p.length : Int) - vi.1 - 1, p.length - vi.2 - 1))

/-- `Perm.rotate(times)` with the loops in array-write form -/
def rotateW (p : NSeq) (t : Int) : Except Proto.Err NSeq :=
  if t % 4 = 0 then .ok p
  else if t % 4 = 2 then .ok (reverseComplement p)
  else if t % 4 = 1 then rotate1W p
  else rotate3W p

/-! ## `Perm.all_syms` -/

/-- `Perm.all_syms` (perm.py:632-645) is a `set` turned into a tuple: its canonical listing is the
    duplicate-free sorted list of the eight candidates -/
def allSyms (p : NSeq) : List NSeq := sortPerms (allSymsList p).eraseDups

/-! ## mesh patterns -/

/-- the `assert` of `MeshPatt.__init__` (meshpatt.py:22-31): all cells inside `[0, n]²` -/
def meshValid (m : Mesh) : Bool :=
  m.shading.all fun c => decide (c.1 ≤ m.pattern.length) && decide (c.2 ≤ m.pattern.length)

/-- `MeshPatt.complement` (meshpatt.py:103-118): `(x, n - y)` -/
def meshComplement (m : Mesh) : Mesh :=
  ⟨complement m.pattern, m.shading.map fun c => (c.1, m.pattern.length - c.2)⟩

/-- `MeshPatt.reverse` (meshpatt.py:120-132): `(n - x, y)` -/
def meshReverse (m : Mesh) : Mesh :=
  ⟨reverse m.pattern, m.shading.map fun c => (m.pattern.length - c.1, c.2)⟩

/-- `MeshPatt.inverse` (meshpatt.py:134-144): `(y, x)` -/
def meshInverse (m : Mesh) : Mesh :=
  ⟨inverse m.pattern, m.shading.map fun c => (c.2, c.1)⟩

/-- `MeshPatt.rotate(times)` (meshpatt.py:193-221): `1 ↦ (y, n - x)`, `2 ↦ (n - x, n - y)`,
    `3 ↦ (n - y, x)`; the pattern is rotated by `Perm.rotate(times % 4)` -/
def meshRotate (m : Mesh) (t : Int) : Mesh :=
  if t % 4 = 0 then m
  else if t % 4 = 1 then
    ⟨rotate m.pattern (t % 4), m.shading.map fun c => (c.2, m.pattern.length - c.1)⟩
  else if t % 4 = 2 then
    ⟨rotate m.pattern (t % 4), m.shading.map fun c => (m.pattern.length - c.1, m.pattern.length - c.2)⟩
  else
    ⟨rotate m.pattern (t % 4), m.shading.map fun c => (m.pattern.length - c.2, c.1)⟩

/-- canonical representative of a mesh value (`frozenset` shading): sorted duplicate-free cells -/
def meshCanon (m : Mesh) : Mesh := ⟨m.pattern, sortCells m.shading⟩

/-- `MeshPatt.__lt__` (meshpatt.py:825-831): `(pattern, sorted(shading))` compared as a tuple -/
def meshLt (a b : Mesh) : Bool :=
  if a.pattern = b.pattern then lexBy cellLt (sortCells a.shading) (sortCells b.shading)
  else permLt a.pattern b.pattern
def meshLe (a b : Mesh) : Bool := meshLt a b || meshCanon a == meshCanon b

/-- the eight candidates in the order `MeshPatt.all_syms` (meshpatt.py:223-242) produces them -/
def meshAllSymsList (m : Mesh) : List Mesh :=
  let r1 := meshRotate m 1
  let r2 := meshRotate r1 1
  let r3 := meshRotate r2 1
  [m, meshInverse m, r1, meshInverse r1, r2, meshInverse r2, r3, meshInverse r3]

/-- `MeshPatt.all_syms` as a canonical listing (set semantics: equal meshes merged, sorted) -/
def meshAllSyms (m : Mesh) : List Mesh :=
  (((meshAllSymsList m).map meshCanon).eraseDups).mergeSort meshLe

/-! ## permutils/symmetry.py -/

def rotate90Set (s : List NSeq) : List NSeq := s.map fun p => rotate p 1
def rotate180Set (s : List NSeq) : List NSeq := s.map fun p => rotate p 2
def rotate270Set (s : List NSeq) : List NSeq := s.map fun p => rotate p 3
def inverseSet (s : List NSeq) : List NSeq := s.map inverse
def reverseSet (s : List NSeq) : List NSeq := s.map reverse
def complementSet (s : List NSeq) : List NSeq := s.map complement
def antidiagonalSet (s : List NSeq) : List NSeq := s.map flipAntidiagonal

/-- the eight sorted tuples `all_symmetry_sets` adds to its answer set, in the order of the code
    (symmetry.py:41-51) -/
def allSymmetrySetsList (s : List NSeq) : List (List NSeq) :=
  let s1 := rotate90Set s
  let s2 := rotate90Set s1
  let s3 := rotate90Set s2
  [sortPerms s, sortPerms (inverseSet s), sortPerms s1, sortPerms (inverseSet s1),
   sortPerms s2, sortPerms (inverseSet s2), sortPerms s3, sortPerms (inverseSet s3)]

/-- `all_symmetry_sets` as a canonical listing of the answer set -/
def allSymmetrySets (s : List NSeq) : List (List NSeq) :=
  ((allSymmetrySetsList s).eraseDups).mergeSort tupleLe

/-- `lex_min` (symmetry.py:54-56): `min` of the answer set -/
def lexMin (s : List NSeq) : List NSeq := (minBy tupleLt (allSymmetrySetsList s)).getD []

/-! ## `permtools lexmin` (cli.py:41-44) at string level -/

/-- `re.findall(r"\d+", s)` for ASCII input: maximal runs of decimal digits, left to right -/
def digitRunsAux : List Char → List Char → List (List Char) → List (List Char)
  | [], cur, acc => if cur.isEmpty then acc.reverse else (cur.reverse :: acc).reverse
  | c :: cs, cur, acc =>
    if c.isDigit then digitRunsAux cs (c :: cur) acc
    else if cur.isEmpty then digitRunsAux cs [] acc
    else digitRunsAux cs [] (cur.reverse :: acc)

def digitRuns (s : String) : List (List Char) := digitRunsAux s.toList [] []

/-- `Basis._pruner` (basis.py:29-36) on the sorted list -/
def symPruner (sorted : List NSeq) : List NSeq :=
  if (sorted.headD []).length = 0 then [sorted.headD []]
  else sorted.foldl (fun nb p => if avoidsAll p nb then nb ++ [p] else nb) []

/-- `Basis(*patts)` (basis.py:12-15) -/
def symBasisNew (l : List NSeq) : List NSeq :=
  if l.isEmpty then [] else symPruner (sortPerms l)

/-- `Basis.from_string` (basis.py:18-21): every digit run is standardised character by character -/
def symBasisFromString (s : String) : List NSeq :=
  symBasisNew ((digitRuns s).map fun r => standardize (r.map fun c => c.toNat - 48))

/-- `Perm.__str__` (perm.py:3011-3016) -/
def permStr (p : NSeq) : String :=
  if p.isEmpty then "ε"
  else if p.length ≤ 10 then String.join (p.map toString)
  else String.join (p.map fun i => "(" ++ toString i ++ ")")

/-- what `get_lex_min` prints (without the newline) -/
def cliLexmin (s : String) : String :=
  "_".intercalate ((lexMin (symBasisFromString s)).map permStr)

end Model
