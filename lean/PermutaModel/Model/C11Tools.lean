import PermutaModel.Model.C11
/-!
# C11 model — `PermutationStatistic` (permuta/permutils/statistics.py)

The name → function table is NOT copied here: it is `Generated.statTable`, regenerated from the source on
every run.  `byFunc` maps the name of a `Perm` method to its model.
-/

namespace Model.Stat

/-- `Perm` method name ↦ model (integer-valued methods).  Fuel exhaustion (`none`, impossible on
    permutations) is shown as `-1`. -/
def byFunc : String → Option (NSeq → Int)
  | "count_inversions" => some fun p => countInversions p
  | "count_non_inversions" => some fun p => countNonInversions p
  | "major_index" => some fun p => majorIndex p
  | "count_descents" => some fun p => countDescents p
  | "count_ascents" => some fun p => countAscents p
  | "count_peaks" => some fun p => countPeaks p
  | "count_valleys" => some fun p => countValleys p
  | "count_cycles" => some fun p => ((countCycles p).map Int.ofNat).getD (-1)
  | "count_ltrmin" => some fun p => countLtrmin p
  | "count_ltrmax" => some fun p => countLtrmax p
  | "count_rtlmin" => some fun p => countRtlmin p
  | "count_rtlmax" => some fun p => countRtlmax p
  | "count_fixed_points" => some fun p => countFixedPoints p
  | "order" => some fun p => ((order p).map Int.ofNat).getD (-1)
  | "length_of_longestrun_ascending" => some fun p => lengthOfLongestrunAscending p
  | "length_of_longestrun_descending" => some fun p => lengthOfLongestrunDescending p
  | "length_of_longest_increasing_subsequence" => some fun p => lengthOfLongestIncreasingSubsequence p
  | "length_of_longest_decreasing_subsequence" => some fun p => lengthOfLongestDecreasingSubsequence p
  | "depth" => some fun p => depth p
  | "count_bounces" => some fun p => (countBounces p).getD (-1)
  | "max_drop_size" => some fun p => maxDropSize p
  | "count_column_sum_primes" => some fun p => countColumnSumPrimes p
  | "holeyness" => some fun p => holeyness p
  | "count_stack_sorts" => some fun p => ((countStackSorts p).map Int.ofNat).getD (-1)
  | "count_pop_stack_sorts" => some fun p => ((countPopStackSorts p).map Int.ofNat).getD (-1)
  | "count_cyclic_peaks" => some fun p => countCyclicPeaks p
  | "count_cyclic_valleys" => some fun p => countCyclicValleys p
  | "count_double_excedance" => some fun p => countDoubleExcedance p
  | "count_double_drops" => some fun p => countDoubleDrops p
  | "count_foremaxima" => some fun p => countForemaxima p
  | "count_afterminima" => some fun p => countAfterminima p
  | "count_aftermaxima" => some fun p => countAftermaxima p
  | "count_foreminima" => some fun p => countForeminima p
  | "count_bonds" => some fun p => countBonds p
  | "count_inc_bonds" => some fun p => countIncBonds p
  | "count_dec_bonds" => some fun p => countDecBonds p
  | "maximal_decreasing_run" => some fun p => maximalDecreasingRun p
  | "count_rtlmax_ltrmin_layers" => some fun p => ((countRtlmaxLtrminLayers p).map Int.ofNat).getD (-1)
  | _ => none

/-- a table entry `(name, method)` -/
abbrev Entry := String × String

/-- `stat.func(perm)`; a method without a model evaluates to `-1000000` (and the driver says `NOMODEL`) -/
def runEntry (e : Entry) (p : NSeq) : Int :=
  match byFunc e.2 with
  | some f => f p
  | none => -1000000

/-- `_STATISTICS[idx]` with Python's tuple indexing (negative indices count from the end) -/
def getByIndex (table : List Entry) (idx : Int) : Except Proto.Err Entry :=
  if idx ≥ 0 then
    match table[idx.toNat]? with
    | some e => .ok e
    | none => .error .indexError
  else if idx + table.length ≥ 0 then
    match table[(idx + table.length).toNat]? with
    | some e => .ok e
    | none => .error .indexError
  else .error .indexError

/-- `perm_class.of_length(n) if perm_class else Perm.of_length(n)` as a set (its order is not observable
    through a `Counter`) -/
def classOfLength (basis : Option (List NSeq)) (n : Nat) : List NSeq :=
  match basis with
  | none => permsLex n
  | some b => (permsLex n).filter fun s => avoidsAll s b

/-- `cnt = Counter(values)`; `lis = [0] * (max(cnt.keys(), default=0) + 1)`; `lis[key] = val`
    (statistics.py:96-100); all statistics are non-negative on permutations -/
def distribution (vals : List Int) : List Nat :=
  (List.range (maxIntD vals 0 + 1).toNat).map fun (k : Nat) => vals.count (k : Int)

/-- `distribution_for_length` (statistics.py:89) -/
def distributionForLength (e : Entry) (n : Nat) (basis : Option (List NSeq)) : List Nat :=
  distribution ((classOfLength basis n).map (runEntry e))

/-- `distribution_up_to` (statistics.py:102) -/
def distributionUpTo (e : Entry) (n : Nat) (basis : Option (List NSeq)) : List (List Nat) :=
  (List.range (n + 1)).map fun i => distributionForLength e i basis

/-- a bijection given as data: the `dict`'s items in insertion order -/
abbrev Bij := List (NSeq × NSeq)

/-- `preserved_in` (statistics.py:85) -/
def preservedIn (e : Entry) (bij : Bij) : Bool := bij.all fun kv => runEntry e kv.1 == runEntry e kv.2

/-- `check_all_preservations` (statistics.py:180) -/
def checkAllPreservations (table : List Entry) (bij : Bij) : List String :=
  (table.filter fun e => preservedIn e bij).map (·.1)

/-- `equally_distributed` (statistics.py:113) -/
def equallyDistributed (table : List Entry) (b1 b2 : List NSeq) (n : Nat) : List String :=
  (table.filter fun e =>
    (List.range (n + 1)).all fun i => distributionForLength e i (some b1) == distributionForLength e i (some b2)).map (·.1)

/-- `check_all_transformed` (statistics.py:185).  `all_stats` is used twice in `product(all_stats, all_stats)`;
    `itertools.product` materialises its arguments from left to right, so when `all_stats` is a one-shot
    generator (`Generated.transformedMaterialised = false`) the second pool is empty.
    The `defaultdict` is shown as its items in insertion order (statistic names are distinct). -/
def checkAllTransformed (materialised : Bool) (table : List Entry) (bij : Bij) : List (String × List String) :=
  table.filterMap fun s1 =>
    if ((if materialised then table else []).filter fun s2 =>
        bij.all fun kv => runEntry s1 kv.1 == runEntry s2 kv.2).isEmpty then none
    else some (s1.1, ((if materialised then table else []).filter fun s2 =>
        bij.all fun kv => runEntry s1 kv.1 == runEntry s2 kv.2).map (·.1))

/-- `Counter(a) == Counter(b)` -/
def counterEq (a b : List (List Int)) : Bool :=
  a.length == b.length && a.all fun x => a.count x == b.count x

/-- `itertools.combinations(l, k)` -/
def combosOf {α : Type} : Nat → List α → List (List α)
  | 0, _ => [[]]
  | _ + 1, [] => []
  | k + 1, x :: xs => (combosOf k xs).map (x :: ·) ++ combosOf (k + 1) xs

/-- `itertools.permutations(l, k)` -/
def arrangementsOf {α : Type} : Nat → List α → List (List α)
  | 0, _ => [[]]
  | k + 1, l => (List.range l.length).flatMap fun i =>
      match l[i]? with
      | none => []
      | some x => (arrangementsOf k (l.eraseIdx i)).map (x :: ·)

/-- `Counter(tuple(stat[1](p) for stat in stats) for p in cls.of_length(i))` as a list of tuples -/
def jointValues (stats : List Entry) (b : List NSeq) (i : Nat) : List (List Int) :=
  (classOfLength (some b) i).map fun p => stats.map fun e => runEntry e p

/-- `jointly_equally_distributed` (statistics.py:127) -/
def jointlyEquallyDistributed (table : List Entry) (b1 b2 : List NSeq) (n dim : Nat) : List (List String) :=
  ((combosOf dim table).filter fun stats =>
    (List.range (n + 1)).all fun i => counterEq (jointValues stats b1 i) (jointValues stats b2 i)).map
    fun stats => stats.map (·.1)

/-- `jointly_transformed_equally_distributed` (statistics.py:148): pairs taken by
    `combinations(permutations(_STATISTICS, dim), 2)` -/
def jointlyTransformedEquallyDistributed (table : List Entry) (b1 b2 : List NSeq) (n dim : Nat) :
    List (List String × List String) :=
  ((combosOf 2 (arrangementsOf dim table)).filter fun pr =>
    (List.range (n + 1)).all fun i =>
      counterEq (jointValues (pr.getD 0 []) b1 i) (jointValues (pr.getD 1 []) b2 i)).map
    fun pr => ((pr.getD 0 []).map (·.1), (pr.getD 1 []).map (·.1))

end Model.Stat
