import PermutaModel.Model.C20
import PermutaModel.Generated.Tables

/-! The configuration of the C20 model as extracted from the current source text
    (`tools/translate_items.py: c20_io_facts`). -/
namespace Model.C20

def genCfg : Cfg where
  writeMode := Generated.c20WriteMode
  writeCaught := Generated.c20WriteCaught
  readCaught := Generated.c20ReadCaught
  readOneLine := Generated.c20ReadOneLine
  validateShape := Generated.c20FromJsonValidates
  storeWriteOnce := Generated.c20StoreWriteOnce
  loadMemo := Generated.c20LoadMemo

end Model.C20
