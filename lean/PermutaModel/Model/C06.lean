import PermutaModel.Model.C03
/-! C06 model: `MeshPatt.sub_mesh_pattern` (meshpatt.py:146-187), `is_shaded` / `is_pointfree`
    (414-464) with their asserts, `_occurrences_in_mesh` (391-396), `Perm.occurrences_in(MeshPatt)`
    (through `get_perm`), `MeshPatt.contains / avoids` (330-359). -/
open Proto

namespace Model

/-- `is_shaded(lower_left)` with a single cell (meshpatt.py:433-435) -/
def isShadedCell (m : Mesh) (x y : Nat) : Except Err Bool :=
  if ¬ (x ≤ m.pattern.length ∧ y ≤ m.pattern.length) then .error .assertion
  else .ok (m.shading.contains (x, y))

/-- `is_shaded(lower_left, upper_right)`: all cells of the inclusive rectangle are shaded -/
def isShadedRect (m : Mesh) (l b r t : Nat) : Except Err Bool :=
  if ¬ (l ≤ m.pattern.length ∧ b ≤ m.pattern.length) then .error .assertion
  else if ¬ (r ≤ m.pattern.length ∧ t ≤ m.pattern.length ∧ l ≤ r ∧ b ≤ t) then .error .assertion
  else .ok ((List.range' b (t + 1 - b)).all fun y => (List.range' l (r + 1 - l)).all fun x =>
    m.shading.contains (x, y))

/-- `is_pointfree(lower_left, upper_right)`: no index in `[left, right)` has its value in
    `[lower, upper)` -/
def isPointfree (m : Mesh) (l b r t : Nat) : Except Err Bool :=
  if ¬ (l ≤ m.pattern.length ∧ b ≤ m.pattern.length ∧ r ≤ m.pattern.length ∧ t ≤ m.pattern.length
      ∧ l ≤ r ∧ b ≤ t) then .error .assertion
  else .ok (!(List.range' l (r - l)).any fun idx => b ≤ m.pattern.getD idx 0 && m.pattern.getD idx 0 < t)

/-- the condition of the set comprehension in `sub_mesh_pattern` for one cell:
    `is_shaded(...) and is_pointfree(...)` (the second call only when the first is true) -/
def subCellKept (m : Mesh) (vertical horizontal : List Nat) (xy : Cell) : Except Err Bool :=
  match isShadedRect m (vertical.getD xy.1 0) (horizontal.getD xy.2 0)
      (vertical.getD (xy.1 + 1) 0 - 1) (horizontal.getD (xy.2 + 1) 0 - 1) with
  | .error e => .error e
  | .ok false => .ok false
  | .ok true => isPointfree m (vertical.getD xy.1 0) (horizontal.getD xy.2 0)
      (vertical.getD (xy.1 + 1) 0 - 1) (horizontal.getD (xy.2 + 1) 0 - 1)

/-- evaluate the comprehension cell by cell, in order; the first exception aborts -/
def filterE (f : Cell → Except Err Bool) : List Cell → Except Err (List Cell)
  | [] => .ok []
  | c :: rest =>
    match f c with
    | .error e => .error e
    | .ok b =>
      match filterE f rest with
      | .error e => .error e
      | .ok r => .ok (if b then c :: r else r)

/-- `for x in range(k+1) for y in range(k+1)` -/
def gridCells (k : Nat) : List Cell :=
  (List.range (k+1)).flatMap fun x => (List.range (k+1)).map fun y => (x, y)

/-- `MeshPatt.sub_mesh_pattern(indices)` (no special case for an empty index set: the general path
    then tests the whole grid `(0,0)…(n,n)` as the single region) -/
def subMeshPattern (m : Mesh) (indices : List Nat) : Except Err Mesh :=
  if (indices.mergeSort (· ≤ ·)).any (fun i => m.pattern.length ≤ i) then .error .indexError
  else
    match filterE (subCellKept m
        ([0] ++ (indices.mergeSort (· ≤ ·)).map (· + 1) ++ [m.pattern.length + 1])
        ([0] ++ ((indices.mergeSort (· ≤ ·)).map fun i => m.pattern.getD i 0 + 1).mergeSort (· ≤ ·)
          ++ [m.pattern.length + 1]))
        (gridCells indices.length) with
    | .error e => .error e
    | .ok sh => .ok ⟨standardize ((indices.mergeSort (· ≤ ·)).map fun i => m.pattern.getD i 0), sh⟩

/-- `self.shading <= other.shading` -/
def shadingSubset (a b : List Cell) : Bool := a.all fun c => b.contains c

/-- the filter of `_occurrences_in_mesh` over a list of candidate occurrences, in order -/
def inMeshFilter (ν μ : Mesh) : List (List Nat) → Except Err (List (List Nat))
  | [] => .ok []
  | c :: rest =>
    match subMeshPattern μ c with
    | .error e => .error e
    | .ok sub =>
      match inMeshFilter ν μ rest with
      | .error e => .error e
      | .ok r => .ok (if shadingSubset ν.shading sub.shading then c :: r else r)

/-- `MeshPatt._occurrences_in_mesh` (as a complete list): the occurrences of `ν` in the underlying
    *permutation* of `μ` (shading of `ν` respected there) whose induced sub-pattern of `μ` shades
    at least the cells of `ν` -/
def meshOccInMesh (ν μ : Mesh) : Except Err (List (List Nat)) :=
  inMeshFilter ν μ (meshOccInPerm ν μ.pattern)

/-- `any(True for _ in ν.occurrences_in(μ))`: stops at the first occurrence found -/
def inMeshAny (ν μ : Mesh) : List (List Nat) → Except Err Bool
  | [] => .ok false
  | c :: rest =>
    match subMeshPattern μ c with
    | .error e => .error e
    | .ok sub => if shadingSubset ν.shading sub.shading then .ok true else inMeshAny ν μ rest

/-- a pattern argument of `MeshPatt.contains` -/
def meshContainsItem (μ : Mesh) : Item → Except Err Bool
  | .perm p => .ok (containsOne μ.pattern p)      -- `Perm.occurrences_in(mesh)` goes through `get_perm`
  | .mesh ν => inMeshAny ν μ (meshOccInPerm ν μ.pattern)
  | .bad => .error .typeError

/-- `MeshPatt.contains(*patts)` -/
def meshContainsAll (μ : Mesh) : List Item → Except Err Bool
  | [] => .ok true
  | it :: rest =>
    match meshContainsItem μ it with
    | .error e => .error e
    | .ok true => meshContainsAll μ rest
    | .ok false => .ok false

/-- `MeshPatt.avoids(*patts)` -/
def meshAvoidsAll (μ : Mesh) : List Item → Except Err Bool
  | [] => .ok true
  | it :: rest =>
    match meshContainsItem μ it with
    | .error e => .error e
    | .ok false => meshAvoidsAll μ rest
    | .ok true => .ok false

/-- `Patt.contained_in(*patts)` (patt.py:16) with mesh-pattern targets: `all(patt.contains(self) for patt in patts)`,
    left to right, stopping at the first `False` -/
def containedInMeshes (it : Item) : List Mesh → Except Err Bool
  | [] => .ok true
  | μ :: rest =>
    match meshContainsAll μ [it] with
    | .error e => .error e
    | .ok true => containedInMeshes it rest
    | .ok false => .ok false

/-- `Patt.avoided_by(*patts)` (patt.py:12) with mesh-pattern targets: `all(not patt.contains(self) for patt in patts)` -/
def avoidedByMeshes (it : Item) : List Mesh → Except Err Bool
  | [] => .ok true
  | μ :: rest =>
    match meshAvoidsAll μ [it] with
    | .error e => .error e
    | .ok true => avoidedByMeshes it rest
    | .ok false => .ok false

/-- full dispatch of `MeshPatt.occurrences_in` on the target type -/
def meshOccurrencesIn (ν : Mesh) (t : Target) : Except Err (List (List Nat)) :=
  meshOccDispatch meshOccInMesh ν t

end Model
