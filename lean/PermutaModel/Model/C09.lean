import PermutaModel.Model.Mesh
/-! # C09 — model of generation, ranking, standardisation and notations (perm.py, meshpatt.py)

Import-free, executable.  Every definition cites the Python lines it mirrors; `assert`s and raised
exceptions are explicit `Except Proto.Err` branches in the order in which the code reaches them.
Python `int` arguments that the code itself checks for sign are `Int` in the outermost wrappers
(`unrank`, `fromInteger`, `first`, `ofLength`, `upToLength`, `meshUnrank`), `Nat` below the check. -/
open Proto (Err)

namespace Model

/-! ## generators (perm.py:183-220) -/

/-- `Perm.of_length(length)` (perm.py:184): `itertools.permutations(range(length))`;
    `range` of a negative number is empty, so a negative length yields the single empty permutation -/
def ofLength (length : Int) : List NSeq := permsLex length.toNat

/-- `Perm.up_to_length(length)` (perm.py:194): `for n in range(length + 1)` -/
def upToLength (length : Int) : List NSeq := (List.range (length + 1).toNat).flatMap permsLex

/-- `islice(cls._all(), remaining)` once `_all` (perm.py:216-220) has reached `length`:
    whole levels are emitted while they fit, the last one is cut.  The conjunct `0 < …` only serves
    the termination argument; it is always true (levels are non-empty, used in `C09.firstLoop_eq`). -/
def firstLoop (remaining length : Nat) : List NSeq :=
  if _h : 0 < (permsLex length).length ∧ (permsLex length).length < remaining then
    permsLex length ++ firstLoop (remaining - (permsLex length).length) (length + 1)
  else (permsLex length).take remaining
termination_by remaining
decreasing_by omega

/-- `Perm.first(count)` (perm.py:206); `islice` rejects a negative stop with `ValueError` -/
def first (count : Int) : Except Err (List NSeq) :=
  if count < 0 then .error .valueError else .ok (firstLoop count.toNat 0)

/-! ## unrank (perm.py:248-289) -/

/-- the `while number > factorial[-1]` loop (perm.py:273-275).  `fuel` is the initial `number`;
    every iteration subtracts `factorial[-1] ≥ 1`, so the fuel is never exhausted
    (`C09.unrankLoop_spec`: it stops with `number ≤ factorial[-1]`). -/
def unrankLoop : Nat → Nat → List Nat → Nat × List Nat
  | 0, number, fac => (number, fac)
  | fuel + 1, number, fac =>
    if number > fac.getLastD 1 then
      unrankLoop fuel (number - fac.getLastD 1) (fac ++ [fac.getLastD 1 * fac.length])
    else (number, fac)

/-- `for i in range(len(factorial), length): factorial.append(i * factorial[-1])` (perm.py:277-278);
    `count` = number of remaining iterations, `i` = loop variable -/
def facExtend : Nat → Nat → List Nat → List Nat
  | 0, _, fac => fac
  | count + 1, i, fac => facExtend count (i + 1) (fac ++ [i * fac.getLastD 1])

/-- the `for val in range(1, length + 1)` loop of `_unrank` (perm.py:285-288) with `todo = length - val + 1`
    iterations left, hence `factorial[length - val] = factorial[todo - 1]`;
    `candidates.pop(division)` raises `IndexError` when out of range -/
def unrankFor : Nat → Nat → List Nat → List Nat → Except Err (List Nat)
  | 0, _, _, _ => .ok []
  | todo + 1, number, cands, fac =>
    if number / fac.getD todo 0 < cands.length then
      match unrankFor todo (number % fac.getD todo 0) (cands.eraseIdx (number / fac.getD todo 0)) fac with
      | .ok rest => .ok (cands.getD (number / fac.getD todo 0) 0 :: rest)
      | .error e => .error e
    else .error .indexError

/-- `Perm._unrank(number, length, factorial)` for non-negative arguments (perm.py:282-288).
    `factorial[length - 1]` with `length = 0` is Python's `factorial[-1]`; it is multiplied by
    `length = 0`, so the bound is `0` whichever entry is read (here entry `0`). -/
def unrankCore (number length : Nat) (fac : List Nat) : Except Err NSeq :=
  if number < fac.getD (length - 1) 0 * length then
    unrankFor length number (List.range length) fac
  else .error .assertion

/-- `Perm.unrank(number, length)` for `number ≥ 0`, `length ≥ 0` or `None` -/
def unrankNat (number : Nat) (length : Option Nat) : Except Err NSeq :=
  if number = 0 then .ok (identity (length.getD 0))
  else match length with
    | none =>
      unrankCore ((unrankLoop number number [1, 1]).1 - 1) ((unrankLoop number number [1, 1]).2.length - 1)
        (unrankLoop number number [1, 1]).2
    | some len => unrankCore number len (facExtend (len - 2) 2 [1, 1])

/-- `Perm.unrank` (perm.py:249).  A negative `number` skips the `while` loop (or runs the `for`
    loop) and fails `assert 0 <= number` (or `assert length >= 0` before it); a negative `length`
    with `number = 0` gives `identity(length) = Perm(range(length)) = ε`, otherwise fails
    `assert length >= 0`. -/
def unrank (number : Int) (length : Option Int) : Except Err NSeq :=
  if number < 0 then .error .assertion
  else if number ≠ 0 ∧ (length.getD 0) < 0 then .error .assertion
  else unrankNat number.toNat (length.map Int.toNat)

/-! ## rank (perm.py:2114-2131) -/

/-- `fact = [1]; for i in range(n): fact.append(fact[i] * (i + 1))` -/
def factTable : Nat → List Nat
  | 0 => [1]
  | i + 1 => factTable i ++ [(factTable i).getD i 0 * (i + 1)]

/-- `bisect.bisect_left(vals, v)` on the sorted list `vals`: leftmost insertion point -/
def bisectLeft : List Nat → Nat → Nat
  | [], _ => 0
  | a :: t, v => if a < v then bisectLeft t v + 1 else 0

/-- `vals.insert(pos, v)` -/
def insertAtPos (vals : List Nat) (pos v : Nat) : List Nat := vals.take pos ++ v :: vals.drop pos

/-- the `for idx, val in enumerate(self)` loop; `n - idx - 1` is the number of entries still to come -/
def rankFor : List Nat → List Nat → List Nat → Nat → Nat
  | [], _, _, res => res
  | val :: rest, vals, fact, res =>
    rankFor rest (insertAtPos vals (bisectLeft vals val) val) fact
      (res + ((val - bisectLeft vals val) * fact.getD rest.length 0 + fact.getD rest.length 0))

/-- `Perm.rank` (for permutations; on other tuples Python's `val - ordered_pos` may go negative) -/
def rank (p : NSeq) : Nat := rankFor p [] (factTable p.length) 0

/-! ## standardisation (perm.py:55-77) -/

/-- insertion step of a stable sort by key `·.1` when elements are inserted from the right
    (the inserted element precedes all present ones in the input, so it goes before equal keys) -/
def insertByKey (x : Nat × Nat) : List (Nat × Nat) → List (Nat × Nat)
  | [] => [x]
  | y :: t => if x.1 ≤ y.1 then x :: y :: t else y :: insertByKey x t

/-- `sorted(pairs, key=itemgetter(0))` – any stable sort computes the same list -/
def stableSortByKey : List (Nat × Nat) → List (Nat × Nat)
  | [] => []
  | x :: t => insertByKey x (stableSortByKey t)

/-- `Perm._to_standard` (perm.py:70-74): `Perm(idx for (idx, _) in sorted(enumerate(it), key=itemgetter(1))).inverse()`;
    pairs are `(value, index)` here (`List.zipIdx`) -/
def toStandard (l : List Nat) : NSeq := inverse ((stableSortByKey l.zipIdx).map (·.2))

/-- the `functools.lru_cache(maxsize)` in front of `_to_standard`: most recently used first -/
abbrev StdCache := List (List Nat × NSeq)

/-- one call of `Perm.to_standard` through the cache: a hit moves the entry to the front,
    a miss computes, stores at the front and evicts the least recently used entry beyond `maxsize` -/
def toStandardMemo (maxsize : Nat) (cache : StdCache) (l : List Nat) : StdCache × NSeq :=
  match cache.lookup l with
  | some r => ((l, r) :: cache.filter (fun e => e.1 != l), r)
  | none => (((l, toStandard l) :: cache).take maxsize, toStandard l)

/-- a history of calls on one cache; outputs in call order -/
def toStandardHistory (maxsize : Nat) : StdCache → List (List Nat) → List NSeq
  | _, [] => []
  | cache, l :: rest =>
    (toStandardMemo maxsize cache l).2 :: toStandardHistory maxsize (toStandardMemo maxsize cache l).1 rest

/-! ## notations (perm.py:79-168, 3008-3016) -/

/-- `while integer != 0: digit_list.append(integer % 10); integer //= 10` (perm.py:96-98), least
    significant digit first; `fuel` = the initial integer (more than the number of digits,
    `C09.digitLoop_valLE`) -/
def digitLoop : Nat → Nat → List Nat
  | 0, _ => []
  | fuel + 1, i => if i = 0 then [] else (i % 10) :: digitLoop fuel (i / 10)

/-- `Perm.from_integer` (perm.py:80-99) -/
def fromInteger (integer : Int) : Except Err NSeq :=
  if integer < 0 ∨ 9876543210 < integer then .error .assertion
  else if integer = 0 then .ok [0]
  else .ok (toStandard (digitLoop integer.toNat integer.toNat).reverse)

/-- the integer written with the decimal digits `l` (most significant first): what a user types for
    `from_integer` -/
def digitsToNat (l : List Nat) : Nat := l.foldl (fun a d => a * 10 + d) 0

/-- `int(c)` for a one-character string (ASCII digits only; other characters: `ValueError`) -/
def charDigit (c : Char) : Except Err Nat :=
  if 48 ≤ c.toNat ∧ c.toNat ≤ 57 then .ok (c.toNat - 48) else .error .valueError

/-- `map(int, string)` consumed by the tuple constructor: the first bad character raises -/
def charsToDigits : List Char → Except Err (List Nat)
  | [] => .ok []
  | c :: t =>
    match charDigit c with
    | .error e => .error e
    | .ok d => match charsToDigits t with
      | .error e => .error e
      | .ok ds => .ok (d :: ds)

/-- `Perm.from_string` (perm.py:102-113) on the characters of the string -/
def fromChars (s : List Char) : Except Err NSeq :=
  if s = ['ε'] then .ok [] else charsToDigits s

def fromString (s : String) : Except Err NSeq := fromChars s.toList

/-- `Perm.one_based` (perm.py:116-123): no validation, `0` becomes `-1` -/
def oneBased (l : List Int) : List Int := l.map (· - 1)

/-- an element handed to `from_iterable_validated`: an `int`, or anything that is not `numbers.Integral` -/
inductive PyVal where
  | int (i : Int)
  | other
deriving DecidableEq, Repr

/-- the tuple entry as a natural number (only used once validation has succeeded) -/
def PyVal.toNat : PyVal → Nat
  | .int v => v.toNat
  | .other => 0

/-- the `for val in perm` loop of `from_iterable_validated` (perm.py:160-167); `used` is the list of
    values seen so far (standing for the Boolean array), `n = len(perm)` -/
def validateLoop (n : Nat) : List PyVal → List Int → Except Err Unit
  | [], _ => .ok ()
  | .other :: _, _ => .error .typeError
  | .int v :: rest, used =>
    if ¬ (0 ≤ v ∧ v < n) then .error .valueError
    else if used.contains v then .error .valueError
    else validateLoop n rest (v :: used)

/-- `Perm.from_iterable_validated` on an iterable (perm.py:130-168); the result is the tuple itself -/
def fromIterableValidated (l : List PyVal) : Except Err NSeq :=
  match validateLoop l.length l [] with
  | .error e => .error e
  | .ok () => .ok (l.map PyVal.toNat)

/-- `Perm.from_iterable_validated` on a `str`: `map(int, iterable)` is consumed by `cls(iterable)`
    first, so a bad character is a `ValueError` before any validation -/
def fromValidatedChars (s : List Char) : Except Err NSeq :=
  match charsToDigits s with
  | .error e => .error e
  | .ok ds => fromIterableValidated (ds.map fun (d : Nat) => PyVal.int (Int.ofNat d))

/-- `str(i)` for a natural number -/
def natChars (i : Nat) : List Char := Nat.toDigits 10 i

/-- `Perm.__str__` (perm.py:3011-3016), three regimes -/
def strChars (p : NSeq) : List Char :=
  if p.isEmpty then ['ε']
  else if p.length ≤ 10 then p.flatMap natChars
  else p.flatMap fun i => '(' :: natChars i ++ [')']

def str (p : NSeq) : String := String.ofList (strChars p)

/-- `tuple.__repr__`: `()`, `(0,)`, `(0, 1, 2)` -/
def tupleReprChars : NSeq → List Char
  | [] => ['(', ')']
  | [a] => '(' :: natChars a ++ [',', ')']
  | a :: b :: t => '(' :: natChars a ++ ((b :: t).flatMap fun i => ',' :: ' ' :: natChars i) ++ [')']

/-- `Perm.__repr__` (perm.py:3008) -/
def reprChars (p : NSeq) : List Char := "Perm(".toList ++ tupleReprChars p ++ [')']

def repr (p : NSeq) : String := String.ofList (reprChars p)

/-! ## mesh patterns (meshpatt.py:32-92, 682-699) -/

/-- `reversed(bin(number)[2:])` as Booleans, least significant bit first (`[]` for `0`, where Python has
    the single character `'0'` – no `'1'` either way); fuel = the number itself (`C09.binDigits_spec`) -/
def binDigits : Nat → Nat → List Bool
  | 0, _ => []
  | fuel + 1, i => if i = 0 then [] else (i % 2 == 1) :: binDigits fuel (i / 2)

/-- `MeshPatt.unrank(pattern, number)` (meshpatt.py:33-50); the cells come out in increasing bit
    order = sorted order of the frozenset.  The constructor's own `assert` cannot fail below the bound. -/
def meshUnrank (pattern : NSeq) (number : Int) : Except Err Mesh :=
  if number < 0 ∨ (2 : Int) ^ ((pattern.length + 1) ^ 2) ≤ number then .error .assertion
  else .ok ⟨pattern,
    ((binDigits number.toNat number.toNat).zipIdx.filter (·.1)).map fun bi =>
      (bi.2 / (pattern.length + 1), bi.2 % (pattern.length + 1))⟩

/-- `MeshPatt.rank` (meshpatt.py:682-699): `res |= 1 << (x * (n + 1) + y)` over the shading -/
def meshRank (m : Mesh) : Nat :=
  m.shading.foldl (fun res c => res ||| (1 <<< (c.1 * (m.pattern.length + 1) + c.2))) 0

/-- `unrank(perm, i) for i in range(start, start + count)`; the first failing `assert` aborts the generator -/
def meshUnrankRange (pattern : NSeq) : Nat → Nat → Except Err (List Mesh)
  | _, 0 => .ok []
  | i, count + 1 =>
    match meshUnrank pattern i with
    | .error e => .error e
    | .ok m => match meshUnrankRange pattern (i + 1) count with
      | .error e => .error e
      | .ok ms => .ok (m :: ms)

/-- the `patt is None` branch: all underlying permutations in `of_length` order -/
def meshOfLengthAll (length : Nat) : List NSeq → Except Err (List Mesh)
  | [] => .ok []
  | p :: ps =>
    match meshUnrankRange p 0 (2 ^ ((length + 1) ^ 2)) with
    | .error e => .error e
    | .ok ms => match meshOfLengthAll length ps with
      | .error e => .error e
      | .ok rest => .ok (ms ++ rest)

/-- `list(MeshPatt.of_length(length, patt))` (meshpatt.py:67-92); note that the number of ranks is
    computed from `length`, not from `len(patt)` -/
def meshOfLength (length : Nat) (patt : Option NSeq) : Except Err (List Mesh) :=
  match patt with
  | none => meshOfLengthAll length (permsLex length)
  | some p => meshUnrankRange p 0 (2 ^ ((length + 1) ^ 2))

end Model
