import PermutaModel.Model.C17Auto
/-! C17 model of `auto_bisc` (`permuta/bisc/bisc.py:57-262`) for the inputs that can give up with `None`:
    a LIST of permutations (lines 62-75) and a PAIR of dictionaries (lines 91-101), next to the function input of
    `Model/C17Auto.lean` (`Source.function`; `autoOuterS .function = autoOuter`, see `Lemmas/C17AutoSrc.lean`).

* `Source` says where the dictionaries come from; it decides (i) which keys the dictionaries have and (ii) what the
  growth step `if L < n + 1` (lines 212-231) does:
  - `function`: keys `0 … L` (extended when `L` grows), never gives up;
  - `list maxA`: `A` and `B` both have the keys `0 … maxA` (`A` is a `defaultdict` that line 75 reads at every
    `i < max(L + 1, max(A.keys()) + 1)`, `B[i]` is assigned for the same `i`); gives up ("You need to input a longer
    list of permutations") when the new `L` exceeds `max(A.keys())`;
  - `pair maxA maxB`: the dictionaries the caller passed, ASSUMED to have the contiguous keys `0 … maxA` and `0 … maxB`
    (what `create_bisc_input` builds); gives up ("You need to add longer permutations to the dictionaries") when the
    new `L` exceeds `min(max(A.keys()), max(B.keys()))`.
  No branch but `function` ever adds a permutation: `A`, `B` are fixed functions `Nat → List NSeq`.
* The keys matter only to the sanity checks (`n not in A.keys()`, `bisc_subfunctions.py:471,504`): `psBadK`/`psGoodK`
  take the key bound.  `mine` and `clean_up` read the dictionaries at lengths `≤ n` only (`bisc_subfunctions.py:46-50,
  132,682`) and `n < L` holds throughout, so - as in the function model - they are given the restriction to `0 … L`.
* the initial exit (lines 69-71, 99-101 "You should have permutations up to length at least 8") is `SrcRes.tooShort`,
  the exit of the growth step is `SrcRes.needLonger`; both are Python's `return None`. -/

namespace Model.C17

inductive Source where
  | function
  | list (maxA : Nat)
  | pair (maxA maxB : Nat)
deriving DecidableEq, Repr

/-- `max(A.keys())` when the current bound is `L` -/
def Source.kA : Source → Nat → Nat
  | .function, L => L
  | .list a, _ => a
  | .pair a _, _ => a

/-- `max(B.keys())` when the current bound is `L` -/
def Source.kB : Source → Nat → Nat
  | .function, L => L
  | .list a, _ => a
  | .pair _ b, _ => b

/-- lines 212-231: the new `L` after `n` was increased to `n`; `none` = `return None` -/
def Source.grow (src : Source) (L n : Nat) : Option Nat :=
  if L < n + 1 then
    match src with
    | .function => some (n + 1)
    | .list a => if a < n + 1 then none else some (n + 1)
    | .pair a b => if min a b < n + 1 then none else some (n + 1)
  else some L

/-- `patterns_suffice_for_bad(sg, L, B, stop_on_failure=True)[0]` for a dictionary with keys `0 … K` -/
def psBadK (sg : PattDict) (B : Nat → List NSeq) (K L : Nat) : Bool :=
  (sufficeBad sg true (keysUpTo B K) (List.range (L + 1))).1

/-- `patterns_suffice_for_good(sg, L, A, stop_on_failure=True)[0]` for a dictionary with keys `0 … K` -/
def psGoodK (sg : PattDict) (A : Nat → List NSeq) (K L : Nat) : Bool :=
  (sufficeGood sg true (keysUpTo A K) (List.range (L + 1))).1

/-- lines 174-190 -/
def verdictS (src : Source) (A B : Nat → List NSeq) (L : Nat) (sg : PattDict) : Verdict :=
  if psBadK sg B (src.kB L) L = false then .badBasis
  else if psGoodK sg A (src.kA L) L = false then .needLonger
  else .accept

inductive SrcRes where
  | found (sg : PattDict)
  | tooShort       -- lines 69-71 / 99-101: `return None`
  | needLonger     -- lines 215-217 / 229-231: `return None`
  | outOfFuel
  | err (e : Proto.Err)
deriving Repr

def AutoRes.toSrc : AutoRes → SrcRes
  | .found sg => .found sg
  | .outOfFuel => .outOfFuel
  | .err e => .err e

/-- the inner `while True` (lines 163-205) -/
def autoInnerS (src : Source) (A B : Nat → List NSeq) (ch : Choice) (SG : PattDict) (L : Nat) :
    Nat → Nat → Nat → InnerRes
  | 0, _, _ => .outOfFuel
  | f + 1, n, ib =>
    match runCleanUp SG (dflt B L) n ib with
    | .error e => .err e
    | .ok [] => autoInnerS src A B ch SG L f n (ib + 1)
    | .ok (b0 :: bs) =>
      match verdictS src A B L (toSg (chosen ch n ib b0 bs)) with
      | .badBasis => autoInnerS src A B ch SG L f (n + 1) ib
      | .needLonger => .again (n + 1)
      | .accept => .found (toSg (chosen ch n ib b0 bs))

/-- lines 149-155 -/
def learnOkS (src : Source) (SG : PattDict) (B : Nat → List NSeq) (L : Nat) : Bool :=
  !SG.isEmpty && psBadK SG B (src.kB L) L

/-- the outer `while True` (lines 144-231); state `L n m` -/
def autoOuterS (src : Source) (A B : Nat → List NSeq) (ch : Choice) : Nat → Nat → Nat → Nat → SrcRes
  | 0, _, _, _ => .outOfFuel
  | f + 1, L, n, m =>
    if learnOkS src (biscD (dflt A L) m n) B L then
      match autoInnerS src A B ch (biscD (dflt A L) m n) L f n (ibStart (biscD (dflt A L) m n)) with
      | .found sg => .found sg
      | .again n' =>
        match src.grow L n' with
        | none => .needLonger
        | some L' => autoOuterS src A B ch f L' n' m
      | .outOfFuel => .outOfFuel
      | .err e => .err e
    else
      match src.grow L (n + 1) with                         -- "Need to learn longer patterns"
      | none => .needLonger
      | some L' => autoOuterS src A B ch f L' (n + 1) (m + 1)

/-- `auto_bisc` once the dictionaries exist; `has8` is `L in A.keys()` (lines 69, 99) -/
def autoBiscSrc (fuel : Nat) (ch : Choice) (src : Source) (has8 : Bool) (A B : Nat → List NSeq) : SrcRes :=
  if has8 then autoOuterS src A B ch fuel 8 4 2 else .tooShort

/-- lines 67-68: `A[len(perm)].append(perm)` -/
def listA (lst : List NSeq) (k : Nat) : List NSeq := lst.filter fun p => p.length == k

/-- line 75: `B[i] = [perm for perm in Perm.of_length(i) if perm not in A[i]]` -/
def listB (lst : List NSeq) (k : Nat) : List NSeq := (permsLex k).filter fun p => !(listA lst k).contains p

/-- `auto_bisc(lst)` for a list of permutations -/
def autoBiscList (fuel : Nat) (ch : Choice) (lst : List NSeq) : SrcRes :=
  autoBiscSrc fuel ch (.list (maxLen lst)) (lst.any fun p => p.length == 8) (listA lst) (listB lst)

/-- `auto_bisc((A, B))` for dictionaries with keys `0 … maxA`, `0 … maxB` -/
def autoBiscPair (fuel : Nat) (ch : Choice) (maxA maxB : Nat) (A B : Nat → List NSeq) : SrcRes :=
  autoBiscSrc fuel ch (.pair maxA maxB) (decide (8 ≤ maxA)) A B

end Model.C17
