import PermutaModel.Model.Mesh
import PermutaModel.Generated.Tables
/-! C12 model: sorting operators and counters (perm.py 1294-1352, 2720-2878), the Simion-Schmidt map
    (permutils/bijections.py), the family predicates (bisc/perm_properties.py) and
    `dihedral_group` (permutils/groups.py).  Import-free, executable, branch-normal form.
    Every function is defined on arbitrary `List Nat` (the `Perm` constructor accepts any tuple). -/

namespace Model

/-! ## `max(enumerate(l), key=snd)` : position and value of the FIRST maximum -/

/-- `(max_i, max_v)`; `(0, 0)` on the empty list (never used there) -/
def maxPos : List Nat → Nat × Nat
  | [] => (0, 0)
  | [x] => (0, x)
  | x :: y :: t =>
    if x < (maxPos (y :: t)).2 then ((maxPos (y :: t)).1 + 1, (maxPos (y :: t)).2) else (0, x)

theorem maxPos_lt : ∀ (l : List Nat), l ≠ [] → (maxPos l).1 < l.length
  | [], h => absurd rfl h
  | [x], _ => by simp [maxPos]
  | x :: y :: t, _ => by
    have ih := maxPos_lt (y :: t) (by simp)
    unfold maxPos
    split
    · simp only [List.length_cons] at ih ⊢; omega
    · simp

/-! ## stack sort (perm.py:2720-2741) -/

/-- `Perm._stack_sort` -/
def stackSort (l : List Nat) : List Nat :=
  if l.length = 0 ∨ l.length = 1 then l
  else if (maxPos l).1 = 0 then stackSort (l.drop 1) ++ [(maxPos l).2]
  else if (maxPos l).1 = l.length - 1 then stackSort (l.take (l.length - 1)) ++ [(maxPos l).2]
  else stackSort (l.take (maxPos l).1) ++ stackSort (l.drop ((maxPos l).1 + 1)) ++ [(maxPos l).2]
termination_by l.length
decreasing_by
  all_goals simp only [List.length_drop, List.length_take]
  all_goals have hlt := maxPos_lt l (by intro h; subst h; simp_all)
  all_goals omega

/-- `Perm.stack_sortable`: `self.stack_sort().is_increasing()` -/
def stackSortable (l : List Nat) : Bool := isIncreasing (stackSort l)

/-- `west_2_stack_sortable`, `west_3_stack_sortable` (perm.py:2856-2862) -/
def west2 (l : List Nat) : Bool := isIncreasing (stackSort (stackSort l))
def west3 (l : List Nat) : Bool := isIncreasing (stackSort (stackSort (stackSort l)))

/-! ## pop-stack sort (perm.py:2751-2762): `stack` is a deque whose left end is the top -/

/-- the `for num in self` loop; `stack` top first, `result` in output order -/
def popStackGo : List Nat → List Nat → List Nat → List Nat
  | [], stack, result => result ++ stack
  | num :: rest, stack, result =>
    if stack ≠ [] ∧ stack.headD 0 < num then popStackGo rest [num] (result ++ stack)
    else popStackGo rest (num :: stack) result

def popStackSort (l : List Nat) : List Nat := popStackGo l [] []
def popStackSortable (l : List Nat) : Bool := isIncreasing (popStackSort l)

/-! ## bubble sort (perm.py:2768-2787) -/

/-- `Perm._bubble_sort` -/
def bubbleSort (l : List Nat) : List Nat :=
  if l.length = 0 ∨ l.length = 1 then l
  else if (maxPos l).1 = 0 then l.drop 1 ++ [(maxPos l).2]
  else if (maxPos l).1 = l.length - 1 then bubbleSort (l.take (l.length - 1)) ++ [(maxPos l).2]
  else bubbleSort (l.take (maxPos l).1) ++ l.drop ((maxPos l).1 + 1) ++ [(maxPos l).2]
termination_by l.length
decreasing_by
  all_goals simp only [List.length_take]
  all_goals have hlt := maxPos_lt l (by intro h; subst h; simp_all)
  all_goals omega

def bubbleSortable (l : List Nat) : Bool := isIncreasing (bubbleSort l)

/-! ## quick sort (perm.py:2793-2826) -/

/-- `for maxind in Perm(slice).strong_fixed_points(): pass` – the last index that is a
    left-to-right maximum (`ltrmax`, running maximum starts at -1) with `idx == self[idx]`;
    `go rest idx runningMax last` -/
def lastSfpGo : List Nat → Nat → Option Nat → Option Nat → Option Nat
  | [], _, _, last => last
  | v :: rest, idx, none, last =>
    if idx = v then lastSfpGo rest (idx + 1) (some v) (some idx) else lastSfpGo rest (idx + 1) (some v) last
  | v :: rest, idx, some m, last =>
    if m < v then
      (if idx = v then lastSfpGo rest (idx + 1) (some v) (some idx) else lastSfpGo rest (idx + 1) (some v) last)
    else lastSfpGo rest (idx + 1) (some m) last

def lastSfp (l : List Nat) : Option Nat := lastSfpGo l 0 none none

/-- the `assert` of `_quick_sort`: `set(slice) == set(range(min(slice), max(slice)+1))` -/
def quickAssertOk (l : List Nat) : Bool :=
  l.isEmpty ||
    (List.range (l.foldl max 0 + 1 - l.foldl min (l.headD 0))).all fun d =>
      l.contains (l.foldl min (l.headD 0) + d)

/-- `Perm._quick_sort` without the assert (which is checked by `quickSortE` on every slice) -/
def quickSort (l : List Nat) : List Nat :=
  if l.length = 0 then l
  else match lastSfp l with
    | some m =>
      if m < l.length then quickSort (l.take m) ++ [l.getD m 0] ++ quickSort (l.drop (m + 1))
      else l   -- unreachable: `lastSfp` only returns positions of `l`
    | none => l.filter (· < l.headD 0) ++ [l.headD 0] ++ l.filter (l.headD 0 < ·)
termination_by l.length
decreasing_by
  all_goals simp only [List.length_drop, List.length_take]
  all_goals omega

/-- does every slice on which `_quick_sort` is called satisfy its `assert`? (same recursion) -/
def quickAsserts (l : List Nat) : Bool :=
  if !quickAssertOk l then false
  else if l.length = 0 then true
  else match lastSfp l with
    | some m =>
      if m < l.length then quickAsserts (l.take m) && quickAsserts (l.drop (m + 1)) else true
    | none => true
termination_by l.length
decreasing_by
  all_goals simp only [List.length_drop, List.length_take]
  all_goals omega

/-- `Perm.quick_sort` with the `AssertionError` branch -/
def quickSortE (l : List Nat) : Except Proto.Err (List Nat) :=
  if quickAsserts l then .ok (quickSort l) else .error .assertion

def quickSortableE (l : List Nat) : Except Proto.Err Bool :=
  if quickAsserts l then .ok (isIncreasing (quickSort l)) else .error .assertion

/-! ## counters (perm.py:1294-1352).  On tuples that are not permutations the Python loops never
    terminate, so the recursion carries fuel; `Props/C12` proves that the fuel `|σ|` is enough for
    every permutation in the stack case. -/

/-- `while perm_list != identity: perm_list = step(perm_list); num_sorts += 1` -/
def countGo (step : List Nat → List Nat) : Nat → List Nat → Nat → Option Nat
  | 0, l, k => if l = List.range l.length then some k else none
  | fuel + 1, l, k => if l = List.range l.length then some k else countGo step fuel (step l) (k + 1)

/-- `Perm.count_stack_sorts` (`none` = the fuel ran out: Python would loop forever) -/
def countStackSorts (l : List Nat) : Option Nat := countGo stackSort l.length l 0

/-- `Perm.count_pop_stack_sorts` -/
def countPopStackSorts (l : List Nat) : Option Nat := countGo popStackSort (l.length * l.length) l 0

/-! ## Simion–Schmidt (bijections.py) -/

inductive SSErr where
  | valueError      -- input outside the domain
  | stopIteration   -- `next(...)` on an exhausted generator (only reachable on non-permutations)
deriving DecidableEq, Repr

def SSErr.show : SSErr → String
  | .valueError => "ERR:ValueError"
  | .stopIteration => "ERR:StopIteration"

/-- `next(k for k in range(lo, n) if k not in used)` -/
def firstUnusedUp (used : List Nat) (lo n : Nat) : Option Nat :=
  ((List.range (n - lo)).map (· + lo)).find? fun k => !used.contains k

/-- `next(k for k in range(n - 1, -1, -1) if k not in used)` -/
def firstUnusedDown (used : List Nat) (n : Nat) : Option Nat :=
  (List.range n).reverse.find? fun k => !used.contains k

/-- loop of `_simion_and_schmidt` over `perm[1:]`; returns the image entries for those positions -/
def ssGo (n : Nat) : List Nat → Nat → List Nat → Except SSErr (List Nat)
  | [], _, _ => .ok []
  | val :: rest, minVal, used =>
    if val < minVal then
      match ssGo n rest val (val :: used) with
      | .ok t => .ok (val :: t)
      | .error e => .error e
    else
      match firstUnusedUp used (minVal + 1) n with
      | none => .error .stopIteration
      | some k =>
        match ssGo n rest minVal (k :: used) with
        | .ok t => .ok (k :: t)
        | .error e => .error e

/-- loop of `_simion_and_schmidt_inv` -/
def ssInvGo (n : Nat) : List Nat → Nat → List Nat → Except SSErr (List Nat)
  | [], _, _ => .ok []
  | val :: rest, minVal, used =>
    if val < minVal then
      match ssInvGo n rest val (val :: used) with
      | .ok t => .ok (val :: t)
      | .error e => .error e
    else
      match firstUnusedDown used n with
      | none => .error .stopIteration
      | some k =>
        match ssInvGo n rest minVal (k :: used) with
        | .ok t => .ok (k :: t)
        | .error e => .error e

def ssRaw (l : List Nat) : Except SSErr (List Nat) :=
  match l with
  | [] => .ok []
  | x :: rest =>
    match ssGo l.length rest x [x] with
    | .ok t => .ok (x :: t)
    | .error e => .error e

def ssInvRaw (l : List Nat) : Except SSErr (List Nat) :=
  match l with
  | [] => .ok []
  | x :: rest =>
    match ssInvGo l.length rest x [x] with
    | .ok t => .ok (x :: t)
    | .error e => .error e

/-- `Bijections.simion_and_schmidt(perm)` -/
def simionSchmidt (l : List Nat) : Except SSErr (List Nat) :=
  if l.length = 0 then .ok []
  else if containsOne l [0, 1, 2] then .error .valueError
  else ssRaw l

/-- `Bijections.simion_and_schmidt(perm, inverse=True)` -/
def simionSchmidtInv (l : List Nat) : Except SSErr (List Nat) :=
  if l.length = 0 then .ok []
  else if containsOne l [0, 2, 1] then .error .valueError
  else ssInvRaw l

/-! ## family predicates (perm_properties.py) – pattern tuples come from `Generated` -/

/-- a pattern as extracted from the source: `none` = classical `Perm`, `some cells` = `MeshPatt` -/
abbrev SrcPatt := List Nat × Option (List (Nat × Nat))

/-- `perm._contains(patt)` for a `Perm` or a `MeshPatt` -/
def containsSrc (σ : NSeq) (p : SrcPatt) : Bool :=
  match p.2 with
  | none => containsOne σ p.1
  | some sh => containsMesh σ ⟨p.1, sh⟩

/-- `perm.avoids(*patts)` -/
def avoidsSrc (σ : NSeq) (ps : List SrcPatt) : Bool := ps.all fun p => !containsSrc σ p

/-- the constant a family function hands to `avoids`, looked up through the generated binding -/
def familyPatts (fn : String) : List SrcPatt :=
  match Generated.ppBindings.lookup fn with
  | none => []
  | some c => (Generated.ppPatts.lookup c).getD []

def smooth (σ : NSeq) : Bool := avoidsSrc σ (familyPatts "smooth")
def forestLike (σ : NSeq) : Bool := avoidsSrc σ (familyPatts "forest_like")
def baxter (σ : NSeq) : Bool := avoidsSrc σ (familyPatts "baxter")
def simsun (σ : NSeq) : Bool := avoidsSrc σ (familyPatts "simsun")
def av231AndMesh (σ : NSeq) : Bool := avoidsSrc σ (familyPatts "av_231_and_mesh")
def hardMesh (σ : NSeq) : Bool := avoidsSrc σ (familyPatts "hard_mesh")

/-! ### dihedral group (groups.py) -/

/-- `d.appendleft(d.pop())` -/
def rotRight (l : List Nat) : List Nat :=
  match l.getLast? with
  | none => l
  | some x => x :: l.dropLast

/-- the `for _ in range(n - 1)` loop: yields the rotated pair each round -/
def dihedralLoop : Nat → List Nat → List Nat → List NSeq
  | 0, _, _ => []
  | k + 1, inc, dec => rotRight inc :: rotRight dec :: dihedralLoop k (rotRight inc) (rotRight dec)

/-- `dihedral_group(n)` in yield order -/
def dihedralGroup (n : Nat) : List NSeq :=
  if n ≤ 2 then []
  else List.range n :: (List.range n).reverse :: dihedralLoop (n - 1) (List.range n) (List.range n).reverse

/-- `dihedral(perm)` -/
def dihedral (σ : NSeq) : Bool := (dihedralGroup σ.length).any fun d => σ == d

/-! ### alternating group -/

/-- `Perm.count_inversions` (specification level: number of pairs `i < j` with `σ[i] > σ[j]`) -/
def countInversions : List Nat → Nat
  | [] => 0
  | x :: t => (t.filter (· < x)).length + countInversions t

/-- `in_alternating_group` -/
def inAlternatingGroup (σ : NSeq) : Bool :=
  if σ.length = 0 then true
  else if σ.length < 3 then σ.length % 2 == 1
  else countInversions σ % 2 == 0

/-! ### Young tableau by row insertion -/

/-- `next(((ind, cur) for ind, cur in enumerate(row) if cur > k), None)` -/
def firstGreater (k : Nat) : List Nat → Nat → Option (Nat × Nat)
  | [], _ => none
  | c :: t, ind => if k < c then some (ind, c) else firstGreater k t (ind + 1)

/-- `insert_in_row(i, k)` acting on the rows from `i` on; an empty remainder stands for
    `len(res) <= i + 1 → res.append([cur])` one level up -/
def insertInRow : List (List Nat) → Nat → List (List Nat)
  | [], k => [[k]]
  | row :: rest, k =>
    match firstGreater k row 0 with
    | none => (row ++ [k]) :: rest
    | some (ind, cur) => row.set ind k :: insertInRow rest cur

/-- `_perm_to_yt` -/
def permToYt (σ : NSeq) : List (List Nat) :=
  match σ with
  | [] => []
  | x :: rest => rest.foldl insertInRow [[x]]

/-- `_tableau_contains_shape` -/
def tableauContainsShape (tab : List (List Nat)) (shape : List Nat) : Bool :=
  decide (shape.length ≤ tab.length) && (shape.zip (tab.map List.length)).all fun st => st.1 ≤ st.2

def ytAvoids22 (σ : NSeq) : Bool := !tableauContainsShape (permToYt σ) [2, 2]
def ytAvoids32 (σ : NSeq) : Bool := !tableauContainsShape (permToYt σ) [3, 2]

/-! ## enumeration helper for the bijectivity history lines (not a model of repo code) -/

/-- all permutations of length `n` avoiding the classical pattern `p`, grown by inserting the maximum -/
def avoidersOf (p : NSeq) : Nat → List NSeq
  | 0 => [[]]
  | n + 1 => (avoidersOf p n).flatMap fun s =>
      ((List.range (n + 1)).map fun i => s.take i ++ [n] ++ s.drop i).filter fun t => !containsOne t p

/-- positions and values of the left-to-right minima -/
def ltrMinGo : List Nat → Nat → Option Nat → List (Nat × Nat)
  | [], _, _ => []
  | v :: rest, idx, none => (idx, v) :: ltrMinGo rest (idx + 1) (some v)
  | v :: rest, idx, some m =>
    if v < m then (idx, v) :: ltrMinGo rest (idx + 1) (some v) else ltrMinGo rest (idx + 1) (some m)

def ltrMin (l : List Nat) : List (Nat × Nat) := ltrMinGo l 0 none

end Model
