import PermutaModel.Model.C18
/-! C18 — `can_simul_shade` / `north_east_simul_shading_lemma_conditions` for ARBITRARY integer arguments
    (meshpatt.py:528-612).  Import-free, executable.

The code never validates the two positions.  Out of the grid three things happen, all mirrored here:
* the rotation of the loop, `pos = pos[1], n - pos[0]`, produces negative coordinates;
* `self.pattern[pos1[0] - 1]` follows Python's index rule: a negative index counts from the end
  (`pos1[0] == 0` is short-circuited, `pos1[0] < 0` is NOT), an index outside `-n ≤ i < n` raises `IndexError`;
* membership tests `(x, y) in self.shading` are simply false for cells that are not cells of the grid.

On cells of the grid the functions below coincide with `Model.C18.neSimul` / `canSimulShade`
(`C18.neSimulI_cast`, `C18.canSimulShadeI_cast`). -/

namespace Model.C18
open Proto (Err)

/-- a position as the caller may pass it: any two integers -/
abbrev ICell := Int × Int

/-- `c in self.shading` (all members of the shading are cells of the grid, with non-negative coordinates) -/
def shadedI (m : Mesh) (c : ICell) : Bool :=
  decide (0 ≤ c.1) && decide (0 ≤ c.2) && m.shading.contains (c.1.toNat, c.2.toNat)

/-- `self.pattern[i]` with Python's index rule -/
def pyGet (l : List Nat) (i : Int) : Except Err Nat :=
  if 0 ≤ i ∧ i < l.length then .ok (l.getD i.toNat 0)
  else if i < 0 ∧ -(l.length : Int) ≤ i then .ok (l.getD (i + l.length).toNat 0)
  else .error .indexError

/-- condition 5 of the simultaneous test (meshpatt.py:596-603) -/
def simulColOkI (m : Mesh) (x y : Int) : Bool :=
  (List.range (mlen m + 1)).all fun ny =>
    (ny : Int) == y || (ny : Int) == y - 1 || !(shadedI m (x - 1, ny)) || shadedI m (x, ny)

/-- condition 6 of the simultaneous test (meshpatt.py:606-610) -/
def simulRowOkI (m : Mesh) (x y y2 : Int) : Bool :=
  (List.range (mlen m + 1)).all fun nx =>
    (nx : Int) == x || (nx : Int) == x - 1 || (shadedI m (nx, y) == shadedI m (nx, y2))

/-- the verdict once `v = self.pattern[pos1[0] - 1]` has been read (meshpatt.py:580-612) -/
def neSimulIB (m : Mesh) (p1 p2 : ICell) (v : Nat) : Bool :=
  decide ((v : Int) = p1.2 - 1) &&
  decide (p1.1 = p2.1) && decide (p1.2 - 1 = p2.2) &&
  !(shadedI m p1 || shadedI m p2) &&
  !(shadedI m (p1.1 - 1, p1.2) || shadedI m (p2.1 - 1, p2.2)) &&
  simulColOkI m p1.1 p1.2 && simulRowOkI m p1.1 p1.2 p2.2

/-- `north_east_simul_shading_lemma_conditions(pos1, pos2)` for any integers: the `assert`, then the tuple
    of six items is built completely (so the subscript is evaluated unless `pos1[0] == 0`), then `not any` -/
def neSimulI (m : Mesh) (p1 p2 : ICell) : Except Err Bool :=
  if p1.2 < p2.2 then .error .assertion
  else if p1.1 = 0 then .ok false
  else
    match pyGet m.pattern (p1.1 - 1) with
    | .error e => .error e
    | .ok v => .ok (neSimulIB m p1 p2 v)

/-- `if pos1[1] < pos2[1]: pos1, pos2 = pos2, pos1` (meshpatt.py:548-549) -/
def swapI (q : ICell × ICell) : ICell × ICell := if q.1.2 < q.2.2 then (q.2, q.1) else q

/-- `pos[1], n - pos[0]` (meshpatt.py:556) -/
def rotI (n : Nat) (c : ICell) : ICell := (c.2, (n : Int) - c.1)

/-- `ans = ans[1], n - 1 - ans[0]` repeated `k` times (meshpatt.py:552-553) -/
def backRotI (n : Nat) : Nat → ICell → ICell
  | 0, a => a
  | k + 1, a => backRotI n k (a.2, (n : Int) - 1 - a.1)

/-- what a successful round appends (meshpatt.py:551-554) -/
def shadeAnsI (n rot : Nat) (pos : ICell) : Int :=
  (backRotI n ((4 - rot) % 4) (pos.1 - 1, pos.2 - 1)).2

/-- the loop of `can_simul_shade` from round `rot` on, `k` rounds left (meshpatt.py:547-556) -/
def canSimulFromI (n : Nat) : Nat → Nat → Mesh → ICell × ICell → Except Err (List Int)
  | 0, _, _, _ => .ok []
  | k + 1, rot, m, q =>
    match neSimulI m (swapI q).1 (swapI q).2 with
    | .error e => .error e
    | .ok b =>
      match canSimulFromI n k (rot + 1) (rotMesh m) (rotI n (swapI q).1, rotI n (swapI q).2) with
      | .error e => .error e
      | .ok r => .ok ((if b then [shadeAnsI n rot (swapI q).1] else []) ++ r)

/-- `MeshPatt.can_simul_shade(pos1, pos2)` for any two pairs of integers -/
def canSimulShadeI (m : Mesh) (p1 p2 : ICell) : Except Err (List Int) :=
  canSimulFromI (mlen m) 4 0 m (p1, p2)

/-- a cell of the grid `[0, n]²` -/
def inGridI (n : Nat) (c : ICell) : Bool := decide (0 ≤ c.1) && decide (c.1 ≤ n) && decide (0 ≤ c.2) && decide (c.2 ≤ n)

/-- the cells among `cs` that are cells of the grid (the only ones `shade` accepts) -/
def gridPart (n : Nat) (cs : List ICell) : List Cell :=
  (cs.filter (inGridI n)).map fun c => (c.1.toNat, c.2.toNat)

end Model.C18
