import PermutaModel.Model.Mesh
/-! C17 model of BiSC (`permuta/bisc/bisc.py`, `permuta/bisc/bisc_subfunctions.py`).

Conventions
* a Python `set` of cells is a `List Cell` read as a set (`subsetB`, `disjointB`, `setEqB`);
  nothing is canonicalised inside the algorithm, only when printing (`Proto.canonSh`);
* a `dict` is an association list in insertion order (`alGet`/`alSet`);
* `goodpatts` has exactly the keys `0 … M`, so it is a `List Level` indexed by the length;
* CPython's iteration order of a `set` (used by `for b in lst0`) is *not* modelled: the model takes
  the first cell of `lst0` in list order.  The canonicalised output does not depend on that choice
  (the result is the family of minimal admissible hitting sets) - this is checked by the
  correspondence run, not proved. -/

namespace Model.C17

abbrev Shading := List Cell
/-- `dict` classical pattern → list of shadings -/
abbrev Level := List (NSeq × List Shading)
/-- `dict` length → `Level` -/
abbrev PattDict := List (Nat × Level)

/-! ### sets as lists -/
def subsetB (U V : Shading) : Bool := U.all fun c => V.contains c
def disjointB (U V : Shading) : Bool := U.all fun c => !V.contains c
def setEqB (U V : Shading) : Bool := subsetB U V && subsetB V U

/-! ### association lists -/
def alGet {β} (l : List (NSeq × β)) (k : NSeq) : Option β :=
  match l with
  | [] => none
  | (k', v) :: t => if k' = k then some v else alGet t k

/-- `d[k] = v` : replace in place, or append a new key at the end -/
def alSet {β} (l : List (NSeq × β)) (k : NSeq) (v : β) : List (NSeq × β) :=
  match l with
  | [] => [(k, v)]
  | (k', v') :: t => if k' = k then (k, v) :: t else (k', v') :: alSet t k v

def factorial : Nat → Nat
  | 0 => 1
  | n+1 => (n+1) * factorial n

/-! ### `mine` (bisc_subfunctions.py:10-176) -/

/-- lines 85-92: delete the point at index `i` and close the gap in the values -/
def delPoint (perm : NSeq) (i : Nat) : NSeq :=
  (perm.eraseIdx i).map fun w => if w > perm.getD i 0 then w - 1 else w

/-- lines 94-98: shift every recorded cell past the deleted point (`sh - (sh > i)`) and add the
    cell `(i, perm[i])` the deleted point falls into -/
def shiftShading (sh : Shading) (i v : Nat) : Shading :=
  sh.map (fun c => (c.1 - (if c.1 > i then 1 else 0), c.2 - (if c.2 > v then 1 else 0))) ++ [(i, v)]

/-- lines 102-110: the insertion into `goodpatts[nL]` -/
def recordLevel (lv : Level) (p : NSeq) (sh : Shading) : Level :=
  match alGet lv p with
  | some Rs => if Rs.any (fun U => subsetB U sh) then lv else alSet lv p (Rs ++ [sh])
  | none => alSet lv p [sh]

/-- `goodpatts[nL] := recordLevel goodpatts[nL] …` -/
def record (gp : List Level) (nL : Nat) (p : NSeq) (sh : Shading) : List Level :=
  gp.set nL (recordLevel (gp.getD nL []) p sh)

/-- `add_good_shadings_to_goodpatts(perm, shading, loc, min_len, max_patt_len)` (lines 72-115).
    The first argument is the Python variable `L = len(perm)`; the function is called with
    `perm.length`, and every recursive call passes `nL = L - 1 = len(newPerm)`. -/
def addGood (minLen maxLen : Nat) : Nat → NSeq → Shading → Nat → List Level → List Level
  | 0, _, _, _, gp => gp
  | L+1, perm, sh, loc, gp =>
    if L + 1 > minLen ∧ loc ≤ maxLen then
      (List.range' loc (min (maxLen + 1) (L + 1) - loc)).foldl (fun gp i =>
        let newPerm := delPoint perm i
        let newSh := shiftShading sh i (perm.getD i 0)
        let gp1 := if L ≤ maxLen then record gp L newPerm newSh else gp
        if L + 1 > minLen + 1 then addGood minLen maxLen L newPerm newSh i gp1 else gp1) gp
    else gp

/-- lines 155-160 for one key: `for R in goodpatts[j][perm]` iterates over the list object bound at
    loop entry (`orig`), the current value `cur` is rebound when `R` has a proper rival -/
def pruneSeq : List Shading → List Shading → List Shading
  | [], cur => cur
  | R :: rest, cur =>
    if ((cur.eraseP fun S => setEqB S R).any fun S => subsetB S R)
    then pruneSeq rest (cur.eraseP fun S => setEqB S R)
    else pruneSeq rest cur

def pruneLevel (lv : Level) : Level := lv.map fun e => (e.1, pruneSeq e.2 e.2)

/-- lines 42-52: initial dictionary of level `j` -/
def initLevel (ps : List NSeq) : Level := ps.foldl (fun lv p => alSet lv p [[]]) []

/-- lines 41-52: `check_interval` -/
def mineCi (D : Nat → List NSeq) (M : Nat) : List Nat :=
  (List.range (M + 1)).filter fun j => (D j).length != factorial j

/-- lines 41-52: the initial `goodpatts` -/
def mineInit (D : Nat → List NSeq) (M : Nat) : List Level :=
  (List.range (M + 1)).map fun j => initLevel (D j)

/-- lines 125-134: the mining loops -/
def mineLoop (D : Nat → List NSeq) (N minci maxci : Nat) (gp0 : List Level) : List Level :=
  (List.range' 1 N).foldl (fun gp i =>
    (D i).foldl (fun gp perm => addGood minci (min maxci i) perm.length perm [] 0 gp) gp) gp0

/-- lines 152-160: the final antichain filter on the checked levels -/
def minePrune (ci : List Nat) (gp1 : List Level) : List Level :=
  ci.foldl (fun gp j => gp.set j (pruneLevel (gp.getD j []))) gp1

/-- `mine(goodperms, M, N)`; `D j = goodperms[j]`.  Returns `(check_interval, goodpatts)`;
    `([], [])` is the early exit "You need to search for longer patterns" (`[], dict()`). -/
def mine (D : Nat → List NSeq) (M N : Nat) : List Nat × List Level :=
  if (mineCi D M).isEmpty then ([], [])
  else
    (mineCi D M,
      minePrune (mineCi D M)
        (mineLoop D N ((mineCi D M).headD 0) ((mineCi D M).getLastD 0) (mineInit D M)))

/-! ### private containment tests (lines 326-399) -/

/-- the `hit_boxes` loop (lines 377-384) -/
def hitBoxes (cand : List Nat) : List Nat → Nat → Shading
  | [], _ => []
  | e :: rest, x =>
    if cand.contains e then hitBoxes cand rest (x + 1)
    else (x, (cand.filter (· < e)).length) :: hitBoxes cand rest x

def pick (σ : NSeq) (c : List Nat) : List Nat := c.map fun i => σ.getD i 0

/-- `perm_contains_cl_patt_many_shadings(perm, patt, Rs)` -/
def permContainsMany (σ π : NSeq) (Rs : List Shading) : Bool :=
  (occurrencesIn π σ).any fun c => Rs.any fun R => disjointB (hitBoxes (pick σ c) σ 0) R

/-- `perm_contains_cl_patts_many_shadings(perm, patts_w_shadings)` -/
def permContainsDict (σ : NSeq) (SG : PattDict) : Bool :=
  SG.any fun lv => lv.2.any fun e => permContainsMany σ e.1 e.2

/-- insertion sort of naturals (`sorted`) -/
def insertSorted (a : Nat) : List Nat → List Nat
  | [] => [a]
  | b :: t => if a ≤ b then a :: b :: t else b :: insertSorted a t
def sortNat (l : List Nat) : List Nat := l.foldr insertSorted []

/-- `MeshPatt.is_shaded(lower_left, upper_right)` (meshpatt.py:441-445) -/
def rectShaded (S : Shading) (left lower right upper : Nat) : Bool :=
  (List.range' lower (upper + 1 - lower)).all fun y =>
    (List.range' left (right + 1 - left)).all fun x => S.contains (x, y)

/-- `MeshPatt.is_pointfree` (meshpatt.py:463-464) -/
def pointFree (perm : NSeq) (left lower right upper : Nat) : Bool :=
  !((List.range' left (right - left)).any fun idx => lower ≤ perm.getD idx 0 && perm.getD idx 0 < upper)

/-- shading of `MeshPatt(perm, S).sub_mesh_pattern(indices)` (meshpatt.py:146-187) -/
def subMeshShading (perm : NSeq) (S : Shading) (indices : List Nat) : Shading :=
  let idx := sortNat indices
  let n := perm.length
  let k := idx.length
  let vert := [0] ++ idx.map (· + 1) ++ [n + 1]
  let hor := [0] ++ sortNat (idx.map fun i => perm.getD i 0 + 1) ++ [n + 1]
  (List.range (k + 1)).flatMap fun x => (List.range (k + 1)).filterMap fun y =>
    if rectShaded S (vert.getD x 0) (hor.getD y 0) (vert.getD (x+1) 0 - 1) (hor.getD (y+1) 0 - 1)
        && pointFree perm (vert.getD x 0) (hor.getD y 0) (vert.getD (x+1) 0 - 1) (hor.getD (y+1) 0 - 1)
    then some (x, y) else none

/-- `mesh_contains_cl_patt_many_shadings_with_positions(perm, S, candidates_indices, Rs)` -/
def meshContainsPos (perm : NSeq) (S : Shading) (occs : List (List Nat)) (Rs : List Shading) : Bool :=
  occs.any fun c => Rs.any fun R =>
    disjointB (hitBoxes (pick perm c) perm 0) R && subsetB R (subMeshShading perm S c)

/-- `mesh_contains_cl_patt_many_shadings(perm, S, patt, Rs)` -/
def meshContainsMany (perm : NSeq) (S : Shading) (patt : NSeq) (Rs : List Shading) : Bool :=
  meshContainsPos perm S (occurrencesIn patt perm) Rs

/-! ### `forb` (lines 179-323) -/

/-- the cell chosen by `for b in lst0: B = b; if B not in forb: break` -/
def pickB (lst0 forb : Shading) : Cell :=
  match lst0.find? fun b => !forb.contains b with
  | some b => b
  | none => lst0.getLastD (0, 0)

/-- lines 216-230: does adding `B` make `(perm, D)` contain a shorter bad pattern? -/
def prunable (perm : NSeq) (D : Shading) (bad : PattDict) (ci : List Nat) : Bool :=
  (ci.takeWhile fun j => j != perm.length).any fun j =>
    ((bad.lookup j).getD []).any fun e => meshContainsPos perm D (occurrencesIn e.1 perm) e.2

/-- termination measure of the hitting-set recursion: free cells of the unsatisfied members -/
def hsMeasure (C forb : Shading) (lst : List Shading) : Nat :=
  ((lst.filter fun L => disjointB C L).map fun L => (L.filter fun b => !forb.contains b).length).sum

theorem hsMeasure_filter (C forb : Shading) (lst : List Shading) :
    hsMeasure C forb (lst.filter fun L => disjointB C L) = hsMeasure C forb lst := by
  unfold hsMeasure; rw [List.filter_filter]; simp

theorem pickB_spec (lst0 forb : Shading) (h : subsetB lst0 forb = false) :
    pickB lst0 forb ∈ lst0 ∧ pickB lst0 forb ∉ forb := by
  unfold pickB
  cases hf : lst0.find? (fun b => !forb.contains b) with
  | some b =>
    have h1 := List.mem_of_find?_eq_some hf
    have h2 := List.find?_some hf
    exact ⟨h1, by simpa using h2⟩
  | none =>
    exfalso
    rw [List.find?_eq_none] at hf
    have : subsetB lst0 forb = true := by
      unfold subsetB; rw [List.all_eq_true]; intro c hc
      have := hf c hc; simpa using this
    rw [this] at h; cases h

theorem filter_length_le {α} (l : List α) (p q : α → Bool) (hpq : ∀ a, p a = true → q a = true) :
    (l.filter p).length ≤ (l.filter q).length := by
  induction l with
  | nil => simp
  | cons c t ih =>
    simp only [List.filter_cons]
    cases hpc : p c with
    | true => simp [hpq c hpc]; omega
    | false => cases q c <;> simp <;> omega

theorem filter_length_lt_of_mem {α} (l : List α) (p q : α → Bool) (b : α) (hb : b ∈ l)
    (hpq : ∀ a, p a = true → q a = true) (hq : q b = true) (hp : p b = false) :
    (l.filter p).length < (l.filter q).length := by
  induction l with
  | nil => cases hb
  | cons a t ih =>
    rcases List.mem_cons.mp hb with rfl | hb'
    · simp only [List.filter_cons, hq, hp]
      have := filter_length_le t p q hpq; simp; omega
    · have := ih hb'
      simp only [List.filter_cons]
      cases hpa : p a with
      | true => simp [hpq a hpa]; omega
      | false => cases q a <;> simp <;> omega

/-- weight of the members selected by `p`, counting the cells selected by `w` -/
def hsW (p : Shading → Bool) (w : Cell → Bool) (l : List Shading) : Nat :=
  ((l.filter p).map fun L => (L.filter w).length).sum

theorem hsW_le (p p' : Shading → Bool) (w w' : Cell → Bool) (l : List Shading)
    (hp : ∀ L, p' L = true → p L = true) (hw : ∀ b, w' b = true → w b = true) :
    hsW p' w' l ≤ hsW p w l := by
  induction l with
  | nil => simp [hsW]
  | cons L t ih =>
    unfold hsW at ih ⊢
    simp only [List.filter_cons]
    have hl := filter_length_le L w' w hw
    cases hp' : p' L with
    | true => simp [hp L hp']; omega
    | false => cases p L <;> simp <;> omega

theorem hsMeasure_eq (C forb : Shading) (lst : List Shading) :
    hsMeasure C forb lst = hsW (fun L => disjointB C L) (fun b => !forb.contains b) lst := rfl

/-- both recursive calls of `rec_w_reduce_pattern_pos` decrease the measure -/
theorem hsMeasure_forb_lt (C forb : Shading) (lst0 : Shading) (rest : List Shading)
    (h0 : disjointB C lst0 = true) (hs : subsetB lst0 forb = false) :
    hsMeasure C (pickB lst0 forb :: forb) (lst0 :: rest) < hsMeasure C forb (lst0 :: rest) := by
  obtain ⟨hmem, hnf⟩ := pickB_spec lst0 forb hs
  have hw : ∀ b, (!(pickB lst0 forb :: forb).contains b) = true → (!forb.contains b) = true := by
    intro b hb; simp at hb ⊢; exact hb.2
  have h1 : (lst0.filter fun b => !(pickB lst0 forb :: forb).contains b).length
      < (lst0.filter fun b => !forb.contains b).length := by
    apply filter_length_lt_of_mem lst0 _ _ (pickB lst0 forb) hmem hw
    · simpa using hnf
    · simp
  have h2 := hsW_le (fun L => disjointB C L) (fun L => disjointB C L)
    (fun b => !forb.contains b) (fun b => !(pickB lst0 forb :: forb).contains b) rest
    (fun _ h => h) hw
  rw [hsMeasure_eq, hsMeasure_eq]
  unfold hsW at h2 ⊢
  simp only [List.filter_cons, h0, if_true, List.map_cons, List.sum_cons]
  omega

theorem hsMeasure_C_lt (C forb : Shading) (lst0 : Shading) (rest : List Shading)
    (h0 : disjointB C lst0 = true) (hs : subsetB lst0 forb = false) :
    hsMeasure (pickB lst0 forb :: C) forb (lst0 :: rest) < hsMeasure C forb (lst0 :: rest) := by
  obtain ⟨hmem, hnf⟩ := pickB_spec lst0 forb hs
  have hd : disjointB (pickB lst0 forb :: C) lst0 = false := by
    unfold disjointB
    simp only [List.all_cons, Bool.and_eq_false_iff]
    left; simpa using hmem
  have hpos : 0 < (lst0.filter fun b => !forb.contains b).length := by
    apply List.length_pos_of_mem (a := pickB lst0 forb)
    rw [List.mem_filter]; exact ⟨hmem, by simpa using hnf⟩
  have h2 := hsW_le (fun L => disjointB C L) (fun L => disjointB (pickB lst0 forb :: C) L)
    (fun b => !forb.contains b) (fun b => !forb.contains b) rest
    (by intro L hL
        unfold disjointB at hL ⊢
        simp only [List.all_cons, Bool.and_eq_true] at hL
        exact hL.2) (fun _ h => h)
  rw [hsMeasure_eq, hsMeasure_eq]
  unfold hsW at h2 ⊢
  simp only [List.filter_cons, h0, hd, if_true, List.map_cons, List.sum_cons, Bool.false_eq_true,
    if_false]
  omega

/-- `rec_w_reduce_pattern_pos(C, forb, lst, perm, pattern_positions, check_interval)`
    (lines 184-237); `pattern_positions` is recomputed where it is used -/
def hitting (perm : NSeq) (bad : PattDict) (ci : List Nat) (C forb : Shading) (lst : List Shading) :
    List Shading :=
  if lst.any (fun L => subsetB L forb) then []
  else
    match h : lst.filter (fun L => disjointB C L) with
    | [] => [C]
    | lst0 :: rest =>
      if prunable perm (pickB lst0 forb :: C) bad ci then
        hitting perm bad ci C (pickB lst0 forb :: forb) (lst0 :: rest)
      else
        hitting perm bad ci (pickB lst0 forb :: C) forb (lst0 :: rest)
          ++ hitting perm bad ci C (pickB lst0 forb :: forb) (lst0 :: rest)
termination_by hsMeasure C forb lst
decreasing_by
  all_goals
    have hmem0 : lst0 ∈ lst.filter (fun L => disjointB C L) := by rw [h]; simp
    have h0 : disjointB C lst0 = true := (List.mem_filter.mp hmem0).2
    have hs : subsetB lst0 forb = false := by
      have hno := ‹¬ (lst.any (fun L => subsetB L forb)) = true›
      cases hsb : subsetB lst0 forb with
      | false => rfl
      | true =>
        exfalso; apply hno
        rw [List.any_eq_true]; exact ⟨lst0, (List.mem_filter.mp hmem0).1, hsb⟩
    rw [← hsMeasure_filter C forb lst, h]
  · exact hsMeasure_forb_lt C forb lst0 rest h0 hs
  · exact hsMeasure_C_lt C forb lst0 rest h0 hs
  · exact hsMeasure_forb_lt C forb lst0 rest h0 hs

/-- the distinct cells of a list standing for a set -/
def dedupCells : Shading → Shading
  | [] => []
  | a :: t => if t.contains a then dedupCells t else a :: dedupCells t

/-- number of distinct cells (`len` of a Python set) -/
def setSize (s : Shading) : Nat := (dedupCells s).length

/-- lines 267-272: keep `r` unless a later member is a subset of it -/
def keepMinimal : List Shading → List Shading
  | [] => []
  | r :: rest => if rest.any (fun s => subsetB s r) then keepMinimal rest else r :: keepMinimal rest

/-- `find_badpatts(perm)` (lines 239-285) -/
def findBadpatts (gp : List Level) (bad : PattDict) (ci : List Nat) (perm : NSeq) : List Shading :=
  match alGet (gp.getD perm.length []) perm with
  | some Ls =>
    keepMinimal ((hitting perm bad ci [] [] Ls).mergeSort fun a b => setSize a ≥ setSize b)
  | none =>
    if (ci.takeWhile fun j => j != perm.length).any fun j =>
        ((bad.lookup j).getD []).any fun e => meshContainsMany perm [] e.1 e.2
    then [] else [[]]

/-- lines 288-298: `badpatts`, built level by level -/
def forbBad (gp : List Level) (ci : List Nat) (M : Nat) : PattDict :=
  (ci.takeWhile fun j => j ≤ M).foldl (fun bad j =>
    bad ++ [(j, (permsLex j).map fun p => (p, findBadpatts gp bad ci p))]) []

/-- `forb(check_interval, goodpatts, M)`: keep the patterns with at least one shading -/
def forb (gp : List Level) (ci : List Nat) (M : Nat) : PattDict :=
  (forbBad gp ci M).map fun lv => (lv.1, lv.2.filter fun e => !e.2.isEmpty)

/-- the learned dictionary as a flat list of mesh patterns -/
def meshesOf (d : PattDict) : List Mesh :=
  d.flatMap fun lv => lv.2.flatMap fun e => e.2.map fun R => ⟨e.1, R⟩

/-! ### `bisc` (bisc.py:21-54) -/

inductive Rep where | list | dict | pred
deriving DecidableEq, Repr

def maxLen (A : List NSeq) : Nat := A.foldl (fun m p => max m p.length) 0

/-- the dictionary `D` built from the input; for `dict` the harness convention is: keys `0 … K`
    with `K = max(n, longest member)` (a plain `dict`, so other keys raise `KeyError`) -/
def mkD (rep : Rep) (A : List NSeq) (n : Nat) : Nat → List NSeq :=
  match rep with
  | .list => fun k => A.filter fun p => p.length == k
  | .dict => fun k => A.filter fun p => p.length == k
  | .pred => fun k => if k ≤ n then (permsLex k).filter fun p => A.contains p else []

/-- `bisc(A, m, n)`; `n = none` is Python's `n=None` -/
def bisc (rep : Rep) (A : List NSeq) (m : Nat) (n : Option Nat) : Except Proto.Err PattDict :=
  match rep, n with
  | .list, none =>
    if A.isEmpty then .error .valueError            -- max() of an empty sequence
    else
      let r := mine (mkD .list A (maxLen A)) m (maxLen A)
      .ok (forb r.2 r.1 m)
  | .list, some n =>
    let r := mine (mkD .list A n) m n
    .ok (forb r.2 r.1 m)
  | .pred, none =>
    let r := mine (mkD .pred A 7) m 7                -- "I will use permutations up to length 7"
    .ok (forb r.2 r.1 m)
  | .pred, some n =>
    let r := mine (mkD .pred A n) m n
    .ok (forb r.2 r.1 m)
  | .dict, none =>
    if m > maxLen A then .error .keyError            -- goodperms[j] for a missing key
    else
      let r := mine (mkD .dict A (maxLen A)) m (maxLen A)
      .ok (forb r.2 r.1 m)
  | .dict, some n =>
    if m > max n (maxLen A) then .error .keyError
    else
      let r := mine (mkD .dict A n) m n
      .ok (forb r.2 r.1 m)

/-! ### `maximal_mesh_pattern_of_occurrence` (lines 841-868) -/

/-- the `col` scan: for every value not in `con` the number of occurrence points to its left -/
def colScan (con : List Nat) : List Nat → Nat → List (Nat × Nat)
  | [], _ => []
  | v :: rest, cnt => if con.contains v then colScan con rest (cnt + 1) else (v, cnt) :: colScan con rest cnt

/-- `maximal_mesh_pattern_of_occurrence(perm, occ)` for a permutation `perm` -/
def maximalMesh (perm : NSeq) (occ : List Nat) : Shading :=
  let k := occ.length
  let con := pick perm occ
  let col := colScan con perm 0                      -- (value, column) of the points outside
  let row := colScan con (List.range perm.length) 0  -- (value, row)
  let bad := col.filterMap fun vc => (row.lookup vc.1).map fun r => (vc.2, r)
  (List.range (k + 1)).flatMap fun u => (List.range (k + 1)).filterMap fun v =>
    if bad.contains (u, v) then none else some (u, v)

end Model.C17

namespace Model.C17

/-! ### sanity checks (lines 467-531); `A` is a plain dict with keys `0 … K` -/

/-- `patterns_suffice_for_good(SG, L, A, stop_on_failure)`: `(verdict, offending perms)`;
    `Dk k = none` when `k` is not a key of `A` -/
def sufficeGood (SG : PattDict) (stop : Bool) (Dk : Nat → Option (List NSeq)) : List Nat → Bool × List NSeq
  | [] => (true, [])
  | k :: ks =>
    match Dk k with
    | none => (false, [])
    | some As =>
      if (As.filter fun a => permContainsDict a SG).isEmpty then sufficeGood SG stop Dk ks
      else if stop then (false, (As.filter fun a => permContainsDict a SG).take 1)
      else (false, As.filter fun a => permContainsDict a SG)

/-- `patterns_suffice_for_bad(SG, L, B, stop_on_failure)` -/
def sufficeBad (SG : PattDict) (stop : Bool) (Dk : Nat → Option (List NSeq)) : List Nat → Bool × List NSeq
  | [] => (true, [])
  | k :: ks =>
    match Dk k with
    | none => (false, [])
    | some Bs =>
      if (Bs.filter fun b => !permContainsDict b SG).isEmpty then sufficeBad SG stop Dk ks
      else if stop then (false, (Bs.filter fun b => !permContainsDict b SG).take 1)
      else (false, Bs.filter fun b => !permContainsDict b SG)

/-! ### clean-up (lines 534-806).  A monitor entry `(length, pattern number, shading number)` is
    modelled by the mesh pattern it denotes, `(length, pattern, shading)`; the numbering is a
    bijection (`dict_numbs_to_patts`), so nothing is lost. -/

abbrev PId := Nat × NSeq × Shading

/-- `one_for_each(values)` (lines 562-573) -/
def oneForEach : List (List PId) → List (List PId)
  | [] => []
  | [v] => v.map fun x => [x]
  | v :: w :: rest => v.flatMap fun x => (oneForEach (w :: rest)).map fun l => l ++ [x]

/-- `gaur(r, s)` -/
def gaur (r s : List PId) : Bool := r.all fun x => s.contains x

/-- lines 792-799: keep the first monitor, drop every later one that includes it, repeat -/
def reduceMon : List (List PId) → List (List PId)
  | [] => []
  | r :: rest => r :: reduceMon (rest.filter fun s => !gaur r s)
termination_by l => l.length
decreasing_by
  simp only [List.length_cons, List.length_unattach]
  exact Nat.lt_succ_of_le (Nat.le_trans (List.length_filter_le _ _) (by simp))

/-- all numbered patterns of the levels in `lv`, in numbering order -/
def allIds (SG : PattDict) (lvls : List Nat) : List PId :=
  lvls.flatMap fun ell => ((SG.lookup ell).getD []).flatMap fun e => e.2.map fun R => (ell, e.1, R)

/-- the `for mon in loop_monitor` loop (lines 740-773) -/
def monLoop (perm : NSeq) (L limit : Nat) (saviors larger : List PId) :
    List (List PId) → List (List PId) × Bool → List (List PId) × Bool
  | [], st => st
  | mon :: rest, (monitor, failed) =>
    if (mon.filter fun x => x.1 < L).all fun x => !containsMesh perm ⟨x.2.1, x.2.2⟩ then
      if limit ≠ 0 ∧ mon.length ≥ limit then
        monLoop perm L limit saviors larger rest (monitor.erase mon, true)
      else
        monLoop perm L limit saviors larger rest
          (monitor.erase mon ++ saviors.map (fun x => mon ++ [x]) ++ larger.map (fun x => mon ++ [x]), true)
    else monLoop perm L limit saviors larger rest (monitor, failed)

/-- lines 697-708: the patterns of the shorter levels that occur in `perm` -/
def saviorsOf (SG : PattDict) (lcp : List Nat) (L : Nat) (perm : NSeq) : List PId :=
  (allIds SG (lcp.filter (· < L))).filter fun x => containsMesh perm ⟨x.2.1, x.2.2⟩

/-- lines 721-726: when `perm` itself is a learned classical pattern of length `L`, its shadings -/
def largerOf (SG : PattDict) (L : Nat) (perm : NSeq) : List PId :=
  match SG.lookup L with
  | some lv =>
    (match alGet lv perm with
     | some Rs => Rs.map fun R => (L, perm, R)
     | none => [])
  | none => []

/-- lines 776-804: after a failure, sort by size and drop the monitors that include another one -/
def afterLoop (r : List (List PId) × Bool) : Option (List (List PId)) :=
  if r.2 then
    if r.1.isEmpty then none
    else some (reduceMon (r.1.mergeSort fun a b => a.length ≤ b.length))
  else some r.1

/-- the body of `for perm in B[L]` (lines 684-804); `none` = the function returned `[]` -/
def stepPerm (SG : PattDict) (lcp : List Nat) (L limit : Nat) (monitor : Option (List (List PId)))
    (perm : NSeq) : Option (List (List PId)) :=
  match monitor with
  | none => none
  | some [] => none                                   -- "No sets to monitor"
  | some (m0 :: ms) =>
    afterLoop (monLoop perm L limit (saviorsOf SG lcp L perm) (largerOf SG L perm) (m0 :: ms) (m0 :: ms, false))

/-- `clean_up(SG, B, perm_len_min, perm_len_max, patt_len_min, patt_len_max, …, limit_monitors)`:
    the list of bases (each a list of mesh patterns) -/
def cleanUp (SG : PattDict) (Bk : Nat → List NSeq) (permMin permMax pattMin pattMax limit : Nat) :
    List (List PId) :=
  let lcp := (List.range' pattMin (pattMax + 1 - pattMin)).filter fun x => (SG.lookup x).isSome
  if limit ≠ 0 ∧ limit < ((SG.lookup pattMin).getD []).length then []
  else
    let l0 := lcp.headD 0
    let monitor := oneForEach (((SG.lookup l0).getD []).map fun e => e.2.map fun R => (l0, e.1, R))
    let r := (List.range' permMin (permMax + 1 - permMin)).foldl (fun mon L =>
      (Bk L).foldl (stepPerm SG lcp L limit) mon) (some monitor)
    r.getD []

/-- `run_clean_up(SG, B, bm, M=None, limit_monitors)` -/
def runCleanUp (SG : PattDict) (Bk : Nat → List NSeq) (bm limit : Nat) : Except Proto.Err (List (List PId)) :=
  match ((SG.filter fun lv => !lv.2.isEmpty).map (·.1)).max? with
  | none => .error .valueError
  | some M =>
    match (SG.map (·.1)).min? with
    | none => .error .valueError
    | some mn => .ok (cleanUp SG Bk (mn + 1) bm mn M limit)

/-- `to_sg_format(basis, dict_numbs_to_patts)` (lines 824-837) -/
def toSg (basis : List PId) : PattDict :=
  basis.foldl (fun sg x =>
    match sg.lookup x.1 with
    | none => sg ++ [(x.1, [(x.2.1, [x.2.2])])]
    | some lv =>
      sg.map fun e => if e.1 == x.1 then
        (e.1, match alGet lv x.2.1 with
              | none => alSet lv x.2.1 [x.2.2]
              | some Rs => alSet lv x.2.1 (Rs ++ [x.2.2]))
      else e) []

end Model.C17
