import PermutaModel.Model.C08
import PermutaModel.Model.C06
/-! C05 model: `Basis` / `MeshBasis` construction (perm_sets/basis.py) and the choice, checks and
    instance sharing of `Av.__new__` / `from_iterable` / `from_string` / `clear_cache`
    (perm_sets/permset.py 28-72).  The mesh sort is CPython's stable sort on the key
    `(pattern, len(shading), sorted(shading))`; containment between mesh-type patterns in the pruner is
    the C06 model of `MeshPatt.avoids` (assertions included).  No Mathlib import. -/
open Generated Model.C08

namespace Model.C05

/-! ## `Basis` (basis.py:7-49) -/

/-- the loop of `Basis._pruner` (basis.py:31-35): keep `patt` when it avoids everything kept so far -/
def prunerGo : List NSeq → List NSeq → List NSeq
  | acc, [] => acc
  | acc, p :: ps => if avoidsAll p acc then prunerGo (acc ++ [p]) ps else prunerGo acc ps

/-- `Basis._pruner(patts)` on the sorted list, with the "first pattern is empty" shortcut (basis.py:29-30).
    (`patts` is never empty here: `__new__` returns early.) -/
def pruner : List NSeq → List NSeq
  | [] => []
  | p0 :: rest => if p0.length = 0 then [p0] else prunerGo [] (p0 :: rest)

/-- `Basis(*patts)` (basis.py:12-15); `sorted` on the total order `(len, tuple)` -/
def basisNew (l : List NSeq) : List NSeq :=
  if l.isEmpty then [] else pruner (l.mergeSort permLe)

/-- `re.findall(r"\d+", s)`: the maximal runs of decimal digits, each as the list of its digit values -/
def digitGroupsAux : List Char → List Nat → List (List Nat)
  | [], cur => if cur.isEmpty then [] else [cur.reverse]
  | c :: cs, cur =>
    if c.isDigit then digitGroupsAux cs ((c.toNat - '0'.toNat) :: cur)
    else if cur.isEmpty then digitGroupsAux cs []
    else cur.reverse :: digitGroupsAux cs []

def digitGroups (s : List Char) : List (List Nat) := digitGroupsAux s []

/-- `Basis.from_string` (basis.py:17-21): standardise every digit run (ties left to right) -/
def basisOfGroups (gs : List (List Nat)) : List NSeq := basisNew (gs.map standardize)

def basisFromString (s : String) : List NSeq := basisOfGroups (digitGroups s.toList)

/-- add one to every decimal digit except `9`: turns a 0-based text into the 1-based one -/
def shiftChar (c : Char) : Char := if c.isDigit && c != '9' then Char.ofNat (c.toNat + 1) else c

def shiftString (s : String) : String := String.ofList (s.toList.map shiftChar)

/-! ## `MeshBasis` (basis.py:54-116) -/

/-- the pattern/shading of a mesh-type object as the `Mesh` of the shared pattern models (its class plays no role
    in containment) -/
def toMesh (m : MObj) : Mesh := ⟨m.pattern, m.shading⟩

/-- `host._contains(p)` for two mesh-type patterns: `MeshPatt._contains` → `p.occurrences_in(host)` →
    `_occurrences_in_mesh` (the C06 model, with its assertions) -/
def meshInMeshE (p host : MObj) : Except Proto.Err Bool := meshContainsItem (toMesh host) (.mesh (toMesh p))

/-- a classical pattern is wrapped as an unshaded `MeshPatt` (basis.py:78) -/
def wrap : Atom → MObj
  | .perm p => ⟨.MeshPatt, p, []⟩
  | .mesh m => m

/-- the sort key of `MeshBasis.__new__` (basis.py:80-84): `(patt.pattern, len(patt.shading), sorted(patt.shading))`,
    compared as tuples: `Perm` order on the first component, then the number of shaded cells, then the
    sorted cell lists -/
def meshKey2Lt (a b : MObj) : Bool :=
  if a.pattern == b.pattern then
    if a.shading.length == b.shading.length then cellsLt a.shading b.shading
    else decide (a.shading.length < b.shading.length)
  else permLt a.pattern b.pattern

/-- the loop of `MeshBasis._pruner` (basis.py:97-101): `patt.avoids(*new_basis)` is the C06 model of
    `MeshPatt.avoids` (left to right, stops at the first contained pattern, exceptions propagate) -/
def mprunerGoE : List MObj → List MObj → Except Proto.Err (List MObj)
  | acc, [] => .ok acc
  | acc, p :: ps =>
    match meshAvoidsAll (toMesh p) (acc.map fun q => Item.mesh (toMesh q)) with
    | .error e => .error e
    | .ok true => mprunerGoE (acc ++ [p]) ps
    | .ok false => mprunerGoE acc ps

/-- `MeshBasis._pruner` with the shortcut `len(patts[0]) == 0 and not patts[0].shading` (basis.py:95-96) -/
def mprunerE : List MObj → Except Proto.Err (List MObj)
  | [] => .ok []
  | p0 :: rest =>
    if p0.pattern.length = 0 ∧ p0.shading = [] then .ok [p0] else mprunerGoE [] (p0 :: rest)

/-- `sorted(…, key=…)`: the keys never raise; CPython's stable sort on the keys -/
def meshSort (l : List MObj) : Except Proto.Err (List MObj) := pySort (fun a b => .ok (meshKey2Lt a b)) l

/-- `MeshBasis(*patts)` (basis.py:71-87) -/
def meshBasisNew (l : List Atom) : Except Proto.Err (List MObj) :=
  if l.isEmpty then .ok []
  else
    match meshSort (l.map wrap) with
    | .error e => .error e
    | .ok s => mprunerE s

/-! ## `Av` construction (permset.py:28-72) -/

def isMeshAtom : Atom → Bool
  | .perm _ => false
  | .mesh _ => true

def atomPerm : Atom → NSeq
  | .perm p => p
  | .mesh m => m.pattern

/-- `Av.from_iterable`: `MeshBasis` as soon as one pattern is not classical (permset.py:64-71) -/
def avBasisOf (l : List Atom) : Except Proto.Err Obj :=
  if l.any isMeshAtom then
    match meshBasisNew l with
    | .error e => .error e
    | .ok b => .ok (.mbasis b)
  else .ok (.basis (basisNew (l.map atomPerm)))

/-- the check of `Av.__new__` (permset.py:40-41): `len(basis) == 0 or basis == Basis(Perm())` -/
def avForbidden (b : Obj) : Bool :=
  match b with
  | .atom _ => true
  | .basis es => es.isEmpty || (match cmp .eq b (.basis [[]]) with | .ok r => r | .error _ => false)
  | .mbasis es => es.isEmpty || (match cmp .eq b (.basis [[]]) with | .ok r => r | .error _ => false)

/-- `_CLASS_CACHE`: association list basis → instance id, in insertion order; `next` numbers instances -/
structure AvState where
  cache : List (Obj × Nat)
  next : Nat

def AvState.empty : AvState := ⟨[], 0⟩

/-- `Av._CLASS_CACHE.get(basis)`: a dict lookup – same hash and `==` (C08) – that is certain to succeed
    whatever the allocator does in between -/
def cacheGet (c : List (Obj × Nat)) (b : Obj) : Option Nat :=
  match c.find? (fun kv => lookupAlways kv.1 b false) with
  | some kv => some kv.2
  | none => none

/-- `Av(basis)` on a `Basis` / `MeshBasis` object: returns the instance id -/
def avNew (st : AvState) (b : Obj) : Except Proto.Err (AvState × Nat) :=
  if avForbidden b then .error .valueError
  else
    match cacheGet st.cache b with
    | some i => .ok (st, i)
    | none => .ok (⟨st.cache ++ [(b, st.next)], st.next + 1⟩, st.next)

inductive AvOp where
  | ofList (l : List Atom)       -- `Av(iterable)` / `Av.from_iterable`
  | ofString (s : List Char)     -- `Av.from_string`
  | clear                        -- `Av.clear_cache()`

/-- what one step of a history shows: the instance returned, an exception, or nothing (`clear_cache`) -/
inductive AvOut where
  | inst (i : Nat)
  | err (e : Proto.Err)
  | cleared
deriving DecidableEq, Repr

/-- one step of a construction history: new state and what is observed -/
def avStep (st : AvState) : AvOp → AvState × AvOut
  | .clear => (⟨[], st.next⟩, .cleared)
  | .ofString s =>
    match avNew st (.basis (basisOfGroups (digitGroups s))) with
    | .error e => (st, .err e)
    | .ok (st', i) => (st', .inst i)
  | .ofList l =>
    match avBasisOf l with
    | .error e => (st, .err e)
    | .ok b =>
      match avNew st b with
      | .error e => (st, .err e)
      | .ok (st', i) => (st', .inst i)

def avRun : AvState → List AvOp → List AvOut
  | _, [] => []
  | st, op :: ops => (avStep st op).2 :: avRun (avStep st op).1 ops

end Model.C05
