import PermutaModel.Model.Mesh
/-! C18 model of the shading-lemma tests, point insertion, lookups and text rendering of
    `MeshPatt` (permuta/patterns/meshpatt.py).  Import-free, executable.  Cells are `Nat × Nat`
    (negative coordinates are outside the protocol); every Python line mirrored is cited. -/

namespace Model.C18
open Proto (Err)

/-- `len(self)` -/
abbrev mlen (m : Mesh) : Nat := m.pattern.length

/-- the assertion of `MeshPatt.__init__` (meshpatt.py:22-30): all coordinates in `0..len(pattern)` -/
def mkMesh (p : NSeq) (sh : List Cell) : Except Err Mesh :=
  if sh.all (fun c => c.1 ≤ p.length && c.2 ≤ p.length) then .ok ⟨p, sh⟩ else .error .assertion

/-- set union on duplicate-free lists: `a | set(b)` -/
def union (a b : List Cell) : List Cell := a ++ (b.eraseDups.filter fun c => !a.contains c)

/-- `MeshPatt.shade(*positions)` (meshpatt.py:253): the shading `self.shading | set(positions)` -/
def shade (m : Mesh) (ps : List Cell) : Mesh := ⟨m.pattern, union m.shading ps⟩

/-- `shade` through the constructor's assertion -/
def shadeE (m : Mesh) (ps : List Cell) : Except Err Mesh := mkMesh m.pattern (union m.shading ps)

/-! ### add_point -/

/-- meshpatt.py:284-291: the new coordinates of an old coordinate `s` when a line is inserted in
    strip `x`: kept if `s ≤ x`, shifted if `s ≥ x` (both when `s = x`: the strip is split) -/
def splitCoord (s x : Nat) : List Nat :=
  (if s ≤ x then [s] else []) ++ (if s ≥ x then [s + 1] else [])

/-- `_add_point_base_shading` (meshpatt.py:280-295), duplicates removed (it builds a set) -/
def addPointBaseShading (m : Mesh) (x y : Nat) : List Cell :=
  (m.shading.flatMap fun s =>
    (splitCoord s.1 x).flatMap fun nx => (splitCoord s.2 y).map fun ny => (nx, ny)).eraseDups

/-- `_add_point_new_perm` (meshpatt.py:297-305) = `Perm.insert`-like: values `≥ y` are raised, `y` is
    put after the first `x` entries (`islice(iterator, x)` takes at most `x`) -/
def addPointNewPerm (m : Mesh) (x y : Nat) : NSeq := insertAt m.pattern x y

/-- the directional shading of `add_point` (meshpatt.py:270-277); `DIR_EAST=0, NORTH=1, WEST=2,
    SOUTH=3`, anything else (`DIR_NONE=-1`) adds nothing -/
def dirShading (x y : Nat) (d : Int) : List Cell :=
  if d = 0 then [(x + 1, y), (x + 1, y + 1)]
  else if d = 1 then [(x, y + 1), (x + 1, y + 1)]
  else if d = 2 then [(x, y), (x, y + 1)]
  else if d = 3 then [(x, y), (x + 1, y)]
  else []

/-- `MeshPatt.add_point(pos, shade_dir)` (meshpatt.py:255-278) -/
def addPoint (m : Mesh) (pos : Cell) (d : Int) : Except Err Mesh :=
  if m.shading.contains pos then .error .assertion
  else mkMesh (addPointNewPerm m pos.1 pos.2)
    (union (addPointBaseShading m pos.1 pos.2) (dirShading pos.1 pos.2 d))

/-- `add_increase` (meshpatt.py:317-318) -/
def addIncrease (m : Mesh) (pos : Cell) : Except Err Mesh :=
  match addPoint m pos (-1) with
  | .error e => .error e
  | .ok m' => addPoint m' (pos.1 + 1, pos.2 + 1) (-1)

/-- `add_decrease` (meshpatt.py:327-328) -/
def addDecrease (m : Mesh) (pos : Cell) : Except Err Mesh :=
  match addPoint m pos (-1) with
  | .error e => .error e
  | .ok m' => addPoint m' (pos.1 + 1, pos.2) (-1)

/-! ### lookups -/

/-- `is_shaded(lower_left)` (meshpatt.py:432-434) -/
def isShaded1 (m : Mesh) (c : Cell) : Except Err Bool :=
  if c.1 ≤ mlen m ∧ c.2 ≤ mlen m then .ok (m.shading.contains c) else .error .assertion

/-- the rectangle scan of `is_shaded` (meshpatt.py:441-445) -/
def rectShaded (m : Mesh) (ll ur : Cell) : Bool :=
  (List.range (ur.2 + 1 - ll.2)).all fun dy =>
    (List.range (ur.1 + 1 - ll.1)).all fun dx => m.shading.contains (ll.1 + dx, ll.2 + dy)

/-- `is_shaded(lower_left, upper_right)` (meshpatt.py:432-445) -/
def isShaded (m : Mesh) (ll ur : Cell) : Except Err Bool :=
  if ¬ (ll.1 ≤ mlen m ∧ ll.2 ≤ mlen m) then .error .assertion
  else if ¬ (ur.1 ≤ mlen m ∧ ur.2 ≤ mlen m ∧ ll.1 ≤ ur.1 ∧ ll.2 ≤ ur.2) then .error .assertion
  else .ok (rectShaded m ll ur)

/-- the scan of `is_pointfree` (meshpatt.py:464): indices `left ≤ idx < right` -/
def rectPointfree (m : Mesh) (ll ur : Cell) : Bool :=
  !((List.range (ur.1 - ll.1)).any fun d =>
      decide (ll.2 ≤ m.pattern.getD (ll.1 + d) 0) && decide (m.pattern.getD (ll.1 + d) 0 < ur.2))

/-- `is_pointfree(lower_left, upper_right)` (meshpatt.py:458-464) -/
def isPointfree (m : Mesh) (ll ur : Cell) : Except Err Bool :=
  if ¬ (ll.1 ≤ mlen m ∧ ll.2 ≤ mlen m ∧ ur.1 ≤ mlen m ∧ ur.2 ≤ mlen m ∧ ll.1 ≤ ur.1 ∧ ll.2 ≤ ur.2) then
    .error .assertion
  else .ok (rectPointfree m ll ur)

/-- `non_pointless_boxes` (meshpatt.py:659-663), as a duplicate-free list -/
def nonPointlessBoxes (m : Mesh) : List Cell :=
  (m.pattern.zipIdx.flatMap fun vi =>
    [(vi.2 + 1, vi.1 + 1), (vi.2, vi.1 + 1), (vi.2, vi.1), (vi.2 + 1, vi.1)]).eraseDups

/-- `has_anchored_point` (meshpatt.py:675-680): `(right, top, left, bottom)` -/
def hasAnchoredPoint (m : Mesh) : Bool × Bool × Bool × Bool :=
  let n := mlen m
  ((List.range (n + 1)).all (fun i => m.shading.contains (n, i)),
   (List.range (n + 1)).all (fun i => m.shading.contains (i, n)),
   (List.range (n + 1)).all (fun i => m.shading.contains (0, i)),
   (List.range (n + 1)).all (fun i => m.shading.contains (i, 0)))

/-! ### the shading lemma -/

/-- `MeshPatt.rotate()` (times = 1; meshpatt.py:216-218): pattern rotated, cell `(x,y) ↦ (y, n-x)` -/
def rotMesh (m : Mesh) : Mesh :=
  ⟨rotate1 m.pattern, m.shading.map fun c => (c.2, mlen m - c.1)⟩

/-- condition 5 (meshpatt.py:513-517): lower box of the horizontal line shaded ⇒ upper box shaded,
    in every column other than `x-1`, `x` -/
def neRowOk (m : Mesh) (x y : Nat) : Bool :=
  (List.range (mlen m + 1)).all fun nx =>
    nx + 1 == x || nx == x || !(m.shading.contains (nx, y - 1)) || m.shading.contains (nx, y)

/-- condition 6 (meshpatt.py:520-524): left box of the vertical line shaded ⇒ right box shaded,
    in every row other than `y-1`, `y` -/
def neColOk (m : Mesh) (x y : Nat) : Bool :=
  (List.range (mlen m + 1)).all fun ny =>
    ny + 1 == y || ny == y || !(m.shading.contains (x - 1, ny)) || m.shading.contains (x, ny)

/-- the verdict of `north_east_shading_lemma_conditions` (meshpatt.py:500-526) when no exception
    occurs.  `x = 0` or `y = 0` make the second item true (`x-1 < 0`, resp. `pattern[x-1] != -1`). -/
def neCondB (m : Mesh) (pos : Cell) : Bool :=
  decide (1 ≤ pos.1) && decide (1 ≤ pos.2) && decide (m.pattern.getD (pos.1 - 1) 0 + 1 = pos.2) &&
  !(m.shading.contains pos) &&
  !(m.shading.contains (pos.1 - 1, pos.2 - 1)) &&
  !(m.shading.contains (pos.1, pos.2 - 1) && m.shading.contains (pos.1 - 1, pos.2)) &&
  neRowOk m pos.1 pos.2 && neColOk m pos.1 pos.2

/-- `north_east_shading_lemma_conditions`: all six items are evaluated (it is a tuple), so
    `self.pattern[x-1]` raises `IndexError` as soon as `x-1 ≥ n` -/
def neCond (m : Mesh) (pos : Cell) : Except Err Bool :=
  if pos.1 > mlen m then .error .indexError else .ok (neCondB m pos)

/-- `ans = ans[1], n - 1 - ans[0]` repeated `k` times (meshpatt.py:483-484) -/
def backRot (n : Nat) : Nat → Nat × Nat → Nat × Nat
  | 0, a => a
  | k + 1, a => backRot n k (a.2, n - 1 - a.1)

/-- what one round of the loop of `can_shade` appends (meshpatt.py:481-485) -/
def shadeAns (n rot : Nat) (pos : Cell) : Nat :=
  (backRot n ((4 - rot) % 4) (pos.1 - 1, pos.2 - 1)).2

/-- the loop of `can_shade` from round `rot` on, `k` rounds left (meshpatt.py:480-487) -/
def canShadeFrom (n : Nat) : Nat → Nat → Mesh → Cell → Except Err (List Nat)
  | 0, _, _, _ => .ok []
  | k + 1, rot, m, pos =>
    match neCond m pos with
    | .error e => .error e
    | .ok b =>
      match canShadeFrom n k (rot + 1) (rotMesh m) (pos.2, n - pos.1) with
      | .error e => .error e
      | .ok r => .ok ((if b then [shadeAns n rot pos] else []) ++ r)

/-- `MeshPatt.can_shade(pos)` (meshpatt.py:478-488) -/
def canShade (m : Mesh) (pos : Cell) : Except Err (List Nat) := canShadeFrom (mlen m) 4 0 m pos

/-- condition 5 of the simultaneous test (meshpatt.py:596-603) -/
def simulColOk (m : Mesh) (x y : Nat) : Bool :=
  (List.range (mlen m + 1)).all fun ny =>
    ny == y || ny + 1 == y || !(m.shading.contains (x - 1, ny)) || m.shading.contains (x, ny)

/-- condition 6 of the simultaneous test (meshpatt.py:606-610): the two rows must match -/
def simulRowOk (m : Mesh) (x y y2 : Nat) : Bool :=
  (List.range (mlen m + 1)).all fun nx =>
    nx == x || nx + 1 == x || (m.shading.contains (nx, y) == m.shading.contains (nx, y2))

/-- verdict of `north_east_simul_shading_lemma_conditions` (meshpatt.py:580-612), no exception -/
def neSimulB (m : Mesh) (p1 p2 : Cell) : Bool :=
  decide (1 ≤ p1.1) && decide (m.pattern.getD (p1.1 - 1) 0 + 1 = p1.2) &&
  decide (p1.1 = p2.1) && decide (p1.2 = p2.2 + 1) &&
  !(m.shading.contains p1 || m.shading.contains p2) &&
  !(m.shading.contains (p1.1 - 1, p1.2) || m.shading.contains (p2.1 - 1, p2.2)) &&
  simulColOk m p1.1 p1.2 && simulRowOk m p1.1 p1.2 p2.2

/-- `north_east_simul_shading_lemma_conditions` with its `assert pos1[1] >= pos2[1]` and the
    `IndexError` of `self.pattern[pos1[0]-1]` -/
def neSimul (m : Mesh) (p1 p2 : Cell) : Except Err Bool :=
  if p1.2 < p2.2 then .error .assertion
  else if p1.1 > mlen m then .error .indexError
  else .ok (neSimulB m p1 p2)

/-- loop of `can_simul_shade` (meshpatt.py:547-556); the swap of line 548-549 persists -/
def canSimulFrom (n : Nat) : Nat → Nat → Mesh → Cell → Cell → Except Err (List Nat)
  | 0, _, _, _, _ => .ok []
  | k + 1, rot, m, q1, q2 =>
    let p1 := if q1.2 < q2.2 then q2 else q1
    let p2 := if q1.2 < q2.2 then q1 else q2
    match neSimul m p1 p2 with
    | .error e => .error e
    | .ok b =>
      match canSimulFrom n k (rot + 1) (rotMesh m) (p1.2, n - p1.1) (p2.2, n - p2.1) with
      | .error e => .error e
      | .ok r => .ok ((if b then [shadeAns n rot p1] else []) ++ r)

/-- `MeshPatt.can_simul_shade(pos1, pos2)` (meshpatt.py:546-557); cells inside the grid -/
def canSimulShade (m : Mesh) (p1 p2 : Cell) : Except Err (List Nat) :=
  canSimulFrom (mlen m) 4 0 m p1 p2

/-- what one round `(x, y)` of the double loop of `shadable_boxes` appends (meshpatt.py:640-647):
    entries `(point, boxes)` -/
def cellEntries (m : Mesh) (c : Cell) : Except Err (List (Nat × List Cell)) :=
  match canShade m c with
  | .error e => .error e
  | .ok a =>
    match (if c.1 < mlen m then canSimulShade m c (c.1 + 1, c.2) else .ok []) with
    | .error e => .error e
    | .ok b =>
      match (if c.2 < mlen m then canSimulShade m c (c.1, c.2 + 1) else .ok []) with
      | .error e => .error e
      | .ok d =>
        .ok (a.map (fun p => (p, [c])) ++ b.map (fun p => (p, [c, (c.1 + 1, c.2)]))
          ++ d.map (fun p => (p, [c, (c.1, c.2 + 1)])))

/-- the loop over a list of cells -/
def entriesOver (m : Mesh) : List Cell → Except Err (List (Nat × List Cell))
  | [] => .ok []
  | c :: cs =>
    match cellEntries m c with
    | .error e => .error e
    | .ok a =>
      match entriesOver m cs with
      | .error e => .error e
      | .ok r => .ok (a ++ r)

/-- `for x in range(n + 1): for y in range(n + 1)` -/
def gridCells (n : Nat) : List Cell :=
  (List.range (n + 1)).flatMap fun x => (List.range (n + 1)).map fun y => (x, y)

/-- the entries `(point, boxes)` appended by `shadable_boxes` (meshpatt.py:638-647), in order -/
def shadableEntries (m : Mesh) : Except Err (List (Nat × List Cell)) :=
  entriesOver m (gridCells (mlen m))

/-- `shadable_boxes()` as a dictionary: keys in first-insertion order, values in append order -/
def groupByKey (es : List (Nat × List Cell)) : List (Nat × List (List Cell)) :=
  (es.map (·.1)).eraseDups.map fun k => (k, (es.filter (·.1 == k)).map (·.2))

def shadableBoxes (m : Mesh) : Except Err (List (Nat × List (List Cell))) :=
  match shadableEntries m with
  | .error e => .error e
  | .ok es => .ok (groupByKey es)

/-! ### ascii_plot -/

def rep (n : Nat) (s : String) : String := String.join (List.replicate n s)

/-- `fill_char` (meshpatt.py:726-731) -/
def fillChar (m : Mesh) (c : Cell) : String :=
  if m.shading.contains c then "▒" else if c.1 = mlen m then "" else " "

/-- one element of `vlines` (meshpatt.py:742-746): cell row `i`, repeated `cs` times -/
def vline (m : Mesh) (cs i : Nat) : String :=
  rep cs ("|".intercalate ((List.range (mlen m + 1)).map fun j => rep cs (fillChar m (j, i))) ++ "\n")

/-- one element of `lines` (meshpatt.py:735-741): the grid line through value `v` -/
def hline (m : Mesh) (cs v : Nat) : String :=
  (rep cs "-").intercalate
    ([""] ++ ((List.range (mlen m)).map fun idx => if m.pattern.getD idx 0 = v then "●" else "+") ++ [""])
    ++ "\n"

/-- `roundrobin(vlines, lines)` for `n+1` and `n` elements: `v_n l_{n-1} v_{n-1} … l_0 v_0` -/
def plotRows (m : Mesh) (cs : Nat) : Nat → String
  | 0 => vline m cs 0
  | k + 1 => vline m cs (k + 1) ++ hline m cs k ++ plotRows m cs k

/-- `MeshPatt.ascii_plot(cell_size)` (meshpatt.py:733-747): `[:-1]` drops the last newline -/
def asciiPlot (m : Mesh) (cs : Nat) : Except Err String :=
  if cs < 1 then .error .assertion
  else .ok ((plotRows m cs (mlen m)).dropEnd 1).toString

/-! ### ascii_plot on character lists (the version the round-trip theorem is about)

The same rendering as `asciiPlot`, organised as text rows joined by newlines: Python concatenates
`row + "\n"` for every row and drops the final newline (`[:-1]`), i.e. it intercalates `"\n"`. -/

/-- `s * n` on character lists -/
def repL (n : Nat) (l : List Char) : List Char := (List.replicate n l).flatten

/-- `fill_char` (meshpatt.py:726-731) -/
def fillCharL (m : Mesh) (c : Cell) : List Char :=
  if m.shading.contains c then ['▒'] else if c.1 = mlen m then [] else [' ']

/-- one text row of cell row `i` (without the newline) -/
def vrowL (m : Mesh) (cs i : Nat) : List Char :=
  ['|'].intercalate ((List.range (mlen m + 1)).map fun j => repL cs (fillCharL m (j, i)))

def markL (m : Mesh) (v idx : Nat) : List Char := if m.pattern.getD idx 0 = v then ['●'] else ['+']

/-- the grid line through value `v` (without the newline) -/
def hrowL (m : Mesh) (cs v : Nat) : List Char :=
  (List.replicate cs '-').intercalate ([[]] ++ (List.range (mlen m)).map (markL m v) ++ [[]])

/-- the text rows from cell row `k` downwards -/
def rowsL (m : Mesh) (cs : Nat) : Nat → List (List Char)
  | 0 => List.replicate cs (vrowL m cs 0)
  | k + 1 => List.replicate cs (vrowL m cs (k + 1)) ++ [hrowL m cs k] ++ rowsL m cs k

def asciiPlotL (m : Mesh) (cs : Nat) : Except Err (List Char) :=
  if cs < 1 then .error .assertion else .ok (['\n'].intercalate (rowsL m cs (mlen m)))

def parsePlotL (s : List Char) (cs : Nat) : Mesh :=
  let rows := s.splitOn '\n'
  let n := (rows.length - cs) / (cs + 1)
  let shading := (List.range (n + 1)).flatMap fun k =>
    ((rows.getD (k * (cs + 1)) []).splitOn '|').zipIdx.filterMap fun fj =>
      if fj.1.head? == some '▒' then some (fj.2, n - k) else none
  let patt := (List.range n).map fun j =>
    ((List.range n).find? fun k =>
      ((rows.getD (k * (cs + 1) + cs) []).splitOn '-').getD (cs * (j + 1)) [] == ['●']).map (n - 1 - ·) |>.getD 0
  ⟨patt, shading⟩



end Model.C18
