import PermutaModel.Model.C17
/-! C17 model of the automatic driver `auto_bisc` (`permuta/bisc/bisc.py:57-262`) for a property given
    as a *function* (the `types.FunctionType` branch, the one `auto_bisc(prop)` is documented and used with).

* The two dictionaries `A` (good) and `B` (bad) are `defaultdict(list)`s whose keys are exactly
  `0 … L`; the model carries the classification of *all* lengths as functions `A B : Nat → List NSeq`
  (`A k` = the good permutations of length `k` in `Perm.of_length` order) and the current `L`:
  `keysUpTo D L` is "`k in D.keys()` / `D[k]`", `dflt D L` is the `defaultdict` read (`[]` for a missing key).
  Extending the dictionaries when `L` grows (lines 219-227) is then just the larger `L`.
* **Nondeterminism.**  `basis = bases[0]` (line 169) takes the first monitor that `clean_up` returns.  The order of
  that list depends on the order of the shadings inside `SG[k][patt]`, which is the order in which the hitting-set
  recursion of `forb` returns them, which depends on CPython's iteration order of a `set` (`for b in lst0`).
  The model therefore takes the basis at the index a *choice function* `ch n ib bases` names (every function
  is a legitimate choice: an index outside the list reads as the first basis).  A choice point is identified
  by `(n, ib)`: along one run `n` never decreases and `n + ib` strictly increases, so no pair is visited twice.
* The loops `while True` are structurally recursive on a fuel argument (number of loop-body executions);
  `AutoRes.outOfFuel` means "the Python loop is still running".  The Python loop has no bound of its own for a function
  input (it keeps enumerating longer permutations), see `C17.auto_bisc_all_good_diverges`. -/

namespace Model.C17

/-- `k in D.keys()` and `D[k]` for a dictionary with keys `0 … L` -/
def keysUpTo (D : Nat → List NSeq) (L k : Nat) : Option (List NSeq) := if k ≤ L then some (D k) else none

/-- `D[k]` for a `defaultdict(list)` with keys `0 … L` -/
def dflt (D : Nat → List NSeq) (L k : Nat) : List NSeq := if k ≤ L then D k else []

/-- `bisc(A, m, n)` for a dictionary (`bisc.py:36-54`): `forb(*mine(D, m, n), m)` -/
def biscD (D : Nat → List NSeq) (m n : Nat) : PattDict := forb (mine D m n).2 (mine D m n).1 m

/-- `patterns_suffice_for_bad(sg, L, B, stop_on_failure=True)[0]` -/
def psBad (sg : PattDict) (B : Nat → List NSeq) (L : Nat) : Bool :=
  (sufficeBad sg true (keysUpTo B L) (List.range (L + 1))).1

/-- `patterns_suffice_for_good(sg, L, A, stop_on_failure=True)[0]` -/
def psGood (sg : PattDict) (A : Nat → List NSeq) (L : Nat) : Bool :=
  (sufficeGood sg true (keysUpTo A L) (List.range (L + 1))).1

/-- what lines 174-190 decide about the chosen basis -/
inductive Verdict where
  | accept      -- both sanity checks pass: `return sg`
  | badBasis    -- "A bad basis was chosen.": `n += 1; continue`
  | needLonger  -- "This is a bad basis. Need to learn from longer perms": `n += 1; break`
deriving DecidableEq, Repr

/-- lines 174-190 -/
def verdict (A B : Nat → List NSeq) (L : Nat) (sg : PattDict) : Verdict :=
  if psBad sg B L = false then .badBasis
  else if psGood sg A L = false then .needLonger
  else .accept

/-- a choice function: `(n, ib, bases) ↦` index of the basis taken -/
abbrev Choice := Nat → Nat → List (List PId) → Nat

/-- the basis taken at the choice point `(n, ib)` from the non-empty list `b0 :: bs` -/
def chosen (ch : Choice) (n ib : Nat) (b0 : List PId) (bs : List (List PId)) : List PId :=
  (b0 :: bs).getD (ch n ib (b0 :: bs)) b0

inductive InnerRes where
  | found (sg : PattDict)     -- line 205 `return sg`
  | again (n : Nat)           -- line 190 `break` with the new `n`
  | outOfFuel
  | err (e : Proto.Err)
deriving Repr

inductive AutoRes where
  | found (sg : PattDict)
  | outOfFuel
  | err (e : Proto.Err)
deriving Repr

/-- the inner `while True` (lines 163-205) for the learned dictionary `SG` -/
def autoInner (A B : Nat → List NSeq) (ch : Choice) (SG : PattDict) (L : Nat) : Nat → Nat → Nat → InnerRes
  | 0, _, _ => .outOfFuel
  | f + 1, n, ib =>
    match runCleanUp SG (dflt B L) n ib with
    | .error e => .err e
    | .ok [] => autoInner A B ch SG L f n (ib + 1)          -- "No bases found. Increasing number of patterns in basis"
    | .ok (b0 :: bs) =>
      match verdict A B L (toSg (chosen ch n ib b0 bs)) with
      | .badBasis => autoInner A B ch SG L f (n + 1) ib
      | .needLonger => .again (n + 1)
      | .accept => .found (toSg (chosen ch n ib b0 bs))

/-- lines 149-155: `SG != {}` and the learned patterns occur in every bad permutation up to length `L` -/
def learnOk (SG : PattDict) (B : Nat → List NSeq) (L : Nat) : Bool := !SG.isEmpty && psBad SG B L

/-- line 162: `ib = len(SG[min(SG.keys())].keys())` -/
def ibStart (SG : PattDict) : Nat :=
  match (SG.map (·.1)).min? with
  | none => 0
  | some mn => ((SG.lookup mn).getD []).length

/-- the outer `while True` (lines 144-227); state `L n m` -/
def autoOuter (A B : Nat → List NSeq) (ch : Choice) : Nat → Nat → Nat → Nat → AutoRes
  | 0, _, _, _ => .outOfFuel
  | f + 1, L, n, m =>
    if learnOk (biscD (dflt A L) m n) B L then
      match autoInner A B ch (biscD (dflt A L) m n) L f n (ibStart (biscD (dflt A L) m n)) with
      | .found sg => .found sg
      | .again n' => autoOuter A B ch f (max L (n' + 1)) n' m
      | .outOfFuel => .outOfFuel
      | .err e => .err e
    else autoOuter A B ch f (max L (n + 2)) (n + 1) (m + 1)   -- "Need to learn longer patterns"

/-- `auto_bisc` on the dictionaries `A`, `B` (lines 58-60: `L = 8`, `n = 4`, `m = 2`) -/
def autoBisc (fuel : Nat) (ch : Choice) (A B : Nat → List NSeq) : AutoRes := autoOuter A B ch fuel 8 4 2

/-- the dictionaries built from a property given as a function (lines 77-89, 219-227) -/
def goodOf (P : NSeq → Bool) (k : Nat) : List NSeq := (permsLex k).filter P
def badOf (P : NSeq → Bool) (k : Nat) : List NSeq := (permsLex k).filter fun p => !P p

/-- `auto_bisc(prop)` for a function `prop` -/
def autoBiscProp (fuel : Nat) (ch : Choice) (P : NSeq → Bool) : AutoRes :=
  autoBisc fuel ch (goodOf P) (badOf P)

/-! ### all results the choices allow -/

/-- every result of the inner loop over all choices: the `found` dictionaries and the values of `n` with
    which it can `break` -/
def autoInnerAll (A B : Nat → List NSeq) (SG : PattDict) (L : Nat) : Nat → Nat → Nat → List InnerRes
  | 0, _, _ => [.outOfFuel]
  | f + 1, n, ib =>
    match runCleanUp SG (dflt B L) n ib with
    | .error e => [.err e]
    | .ok [] => autoInnerAll A B SG L f n (ib + 1)
    | .ok (b0 :: bs) =>
      ((b0 :: bs).filter fun b => verdict A B L (toSg b) = .accept).map (fun b => InnerRes.found (toSg b))
      ++ (if (b0 :: bs).any (fun b => verdict A B L (toSg b) = .needLonger) then [InnerRes.again (n + 1)] else [])
      ++ (if (b0 :: bs).any (fun b => verdict A B L (toSg b) = .badBasis) then autoInnerAll A B SG L f (n + 1) ib else [])

/-- every result of `auto_bisc` over all choices -/
def autoOuterAll (A B : Nat → List NSeq) : Nat → Nat → Nat → Nat → List AutoRes
  | 0, _, _, _ => [.outOfFuel]
  | f + 1, L, n, m =>
    if learnOk (biscD (dflt A L) m n) B L then
      (autoInnerAll A B (biscD (dflt A L) m n) L f n (ibStart (biscD (dflt A L) m n))).flatMap fun r =>
        match r with
        | .found sg => [.found sg]
        | .again n' => autoOuterAll A B f (max L (n' + 1)) n' m
        | .outOfFuel => [.outOfFuel]
        | .err e => [.err e]
    else autoOuterAll A B f (max L (n + 2)) (n + 1) (m + 1)

def autoBiscAll (fuel : Nat) (A B : Nat → List NSeq) : List AutoRes := autoOuterAll A B fuel 8 4 2

end Model.C17
