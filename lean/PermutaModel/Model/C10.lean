import PermutaModel.Model.Perm
/-! # C10 model — algebraic and structural operations of `Perm` (perm.py)

Import-free, executable.  Every definition cites the Python lines it mirrors; quirks are kept
(`insert(index=None)` uses `n+1`, `islice` clipping, `times % len` with Python's sign convention,
`min_val = n+1`, the `length == n` skip, `remove(index)` with Python's negative indexing). -/
open Proto

namespace Model

/-! ## sums (perm.py:301-331) -/

/-- loop of `direct_sum`: `result.extend(val + shift for val in other); shift += len(other)` -/
def directSumGo : NSeq → Nat → List NSeq → NSeq
  | res, _, [] => res
  | res, shift, o :: os => directSumGo (res ++ o.map (· + shift)) (shift + o.length) os

/-- `Perm.direct_sum(self, *others)` (perm.py:301) -/
def directSumN (p : NSeq) (others : List NSeq) : NSeq := directSumGo p p.length others

/-- loop of `skew_sum`: `shift -= len(other); result.extend(val + shift for val in other)` -/
def skewSumGo : NSeq → Nat → List NSeq → NSeq
  | res, _, [] => res
  | res, shift, o :: os => skewSumGo (res ++ o.map (· + (shift - o.length))) (shift - o.length) os

/-- `Perm.skew_sum(self, *others)` (perm.py:317) -/
def skewSumN (p : NSeq) (others : List NSeq) : NSeq :=
  skewSumGo (p.map (· + (others.map List.length).sum)) (others.map List.length).sum others

/-! ## composition (perm.py:333-352, 3003) -/

/-- `_composed_value`: `for other in reversed(others): idx = other[idx]; return self[idx]` -/
def composedValue (p : NSeq) (idx : Nat) (others : List NSeq) : Nat :=
  p.getD (others.foldr (fun o i => o.getD i 0) idx) 0

/-- `Perm.compose(self, *others)` with its length assert -/
def composeN (p : NSeq) (others : List NSeq) : Except Err NSeq :=
  if others.all (fun o => o.length == p.length) then
    .ok ((List.range p.length).map fun idx => composedValue p idx others)
  else .error .assertion

/-- binary composition `p * q` (`result[i] = p[q[i]]`), the total function the laws are about -/
def compose (p q : NSeq) : NSeq := (List.range p.length).map fun i => p.getD (q.getD i 0) 0

/-- `Perm.apply(iterable)` (perm.py:2705) on lists of naturals -/
def applyTo (p : NSeq) (l : List Nat) : Except Err (List Nat) :=
  if l.length = p.length then .ok (p.map fun i => l.getD i 0) else .error .assertion

/-- `Perm.__call__` (perm.py:2989) -/
def call (p : NSeq) (v : Int) : Except Err Nat :=
  if 0 ≤ v ∧ v < p.length then .ok (p.getD v.toNat 0) else .error .assertion

/-! ## insertion / removal (perm.py:354-422) -/

/-- `Perm.insert(index=None, new_element=None)`; `none` = Python `None` -/
def insertOpt (p : NSeq) (index value : Option Int) : Except Err NSeq :=
  if ¬ (0 ≤ index.getD (p.length + 1) ∧ index.getD (p.length + 1) ≤ p.length + 1) then .error .assertion
  else if ¬ (0 ≤ value.getD p.length ∧ value.getD p.length ≤ p.length) then .error .assertion
  else .ok (insertAt p (index.getD (p.length + 1)).toNat (value.getD p.length).toNat)

/-- `Perm.remove_element(selected=None)` -/
def removeElementOpt (p : NSeq) (selected : Option Int) : Except Err NSeq :=
  match selected with
  | none => if p.length = 0 then .ok p else .ok (removeElement p (p.length - 1))
  | some s => if 0 ≤ s ∧ s < p.length then .ok (removeElement p s.toNat) else .error .assertion

/-- `Perm.remove(index=None)`; `self[index]` follows Python: negative indices count from the end,
    anything outside `-n … n-1` raises `IndexError` -/
def removeOpt (p : NSeq) (index : Option Int) : Except Err NSeq :=
  match index with
  | none => removeElementOpt p none
  | some i =>
    if 0 ≤ i ∧ i < p.length then .ok (removeAt p i.toNat)
    else if i < 0 ∧ -(p.length : Int) ≤ i then .ok (removeAt p (i + p.length).toNat)
    else .error .indexError

/-! ## inflation (perm.py:424-451) -/

/-- size a component contributes: `1 if component is None else len(component)` -/
def compSize : Option NSeq → Nat
  | none => 1
  | some c => c.length

/-- first loop of `inflate`: `for index in self.inverse(): shifts[index] = shift; shift += size` -/
def inflateShifts (comps : List (Option NSeq)) : List Nat → Nat → List Nat → List Nat
  | [], _, shifts => shifts
  | index :: rest, shift, shifts =>
    inflateShifts comps rest (shift + compSize (comps.getD index none)) (shifts.set index shift)

/-- second loop of `inflate` -/
def inflateEmit (shifts : List Nat) : List (Option NSeq) → Nat → NSeq
  | [], _ => []
  | none :: cs, index => shifts.getD index 0 :: inflateEmit shifts cs (index + 1)
  | some c :: cs, index => c.map (· + shifts.getD index 0) ++ inflateEmit shifts cs (index + 1)

/-- `Perm.inflate(components)` -/
def inflate (p : NSeq) (comps : List (Option NSeq)) : Except Err NSeq :=
  if comps.length = p.length then
    .ok (inflateEmit (inflateShifts comps (inverse p) 0 (List.replicate p.length 0)) comps 0)
  else .error .assertion

/-! ## shifts (perm.py:505-572); `Int.emod` by a positive number = Python `%` -/

/-- `Perm.shift_right(times)` -/
def shiftRight (p : NSeq) (t : Int) : NSeq :=
  if p.length = 0 then p
  else if (t % (p.length : Int)).toNat = 0 then p
  else p.drop (p.length - (t % (p.length : Int)).toNat) ++ p.take (p.length - (t % (p.length : Int)).toNat)

/-- `Perm.shift_left(times) = shift_right(-times)` -/
def shiftLeft (p : NSeq) (t : Int) : NSeq := shiftRight p (-t)

/-- `Perm.shift_up(times)` -/
def shiftUp (p : NSeq) (t : Int) : NSeq :=
  if p.length = 0 then p
  else if (t % (p.length : Int)).toNat = 0 then p
  else p.map fun v => (v + (t % (p.length : Int)).toNat) % p.length

/-- `Perm.shift_down(times) = shift_up(-times)` -/
def shiftDown (p : NSeq) (t : Int) : NSeq := shiftUp p (-t)

/-! ## decomposability tests (perm.py:705-736) -/

/-- `set(range(lo, lo+i)) == set(islice(self, i))` as two inclusions -/
def prefixSetEq (p : NSeq) (lo i : Nat) : Bool :=
  ((List.range' lo i).all fun x => (p.take i).contains x) && ((p.take i).all fun x => lo ≤ x && x < lo + i)

/-- `Perm.is_sum_decomposable` -/
def isSumDecomposable (p : NSeq) : Bool :=
  (List.range' 1 (p.length - 1)).any fun i => prefixSetEq p 0 i

/-- `Perm.is_skew_decomposable` -/
def isSkewDecomposable (p : NSeq) : Bool :=
  (List.range' 1 (p.length - 1)).any fun i => prefixSetEq p (p.length - i) i

/-! ## sum / skew decomposition (perm.py:2182-2219) -/

/-- `self[a:b]` for `0 ≤ a`, `0 ≤ b` -/
def slice (p : NSeq) (a b : Nat) : NSeq := (p.drop a).take (b - a)

/-- loop of `sum_decomposition`: arguments = remaining `enumerate(self)`, `idx`, `max_val`,
    `curr_block_start_idx` -/
def sumDecompGo (p : NSeq) : List Nat → Nat → Int → Nat → List NSeq
  | [], _, _, _ => []
  | val :: rest, idx, maxv, start =>
    if (idx : Int) = max maxv (val : Int) then
      standardize (slice p start (idx + 1)) :: sumDecompGo p rest (idx + 1) (max maxv (val : Int)) (idx + 1)
    else sumDecompGo p rest (idx + 1) (max maxv (val : Int)) start

/-- `Perm.sum_decomposition` -/
def sumDecomposition (p : NSeq) : List NSeq := sumDecompGo p p 0 (-1) 0

/-- loop of `skew_decomposition` (`min_val` starts at `n + 1`) -/
def skewDecompGo (p : NSeq) : List Nat → Nat → Nat → Nat → List NSeq
  | [], _, _, _ => []
  | val :: rest, idx, minv, start =>
    if p.length - idx - 1 = min minv val then
      standardize (slice p start (idx + 1)) :: skewDecompGo p rest (idx + 1) (min minv val) (idx + 1)
    else skewDecompGo p rest (idx + 1) (min minv val) start

/-- `Perm.skew_decomposition` -/
def skewDecomposition (p : NSeq) : List NSeq := skewDecompGo p p 0 (p.length + 1) 0

/-! ## blocks (perm.py:2221-2257) -/

/-- inner loop of `block_decomposition` for one `idx`: `fuel` remaining values of `length`,
    running `min_val`, `max_val`; returns the lengths for which `idx` is appended -/
def blockInner (p : NSeq) (n idx : Nat) : Nat → Nat → Nat → Nat → List Nat
  | 0, _, _, _ => []
  | fuel + 1, length, mn, mx =>
    if length = n then blockInner p n idx fuel (length + 1) mn mx
    else if max mx (p.getD (idx + length - 1) 0) - min mn (p.getD (idx + length - 1) 0) = length - 1 then
      length :: blockInner p n idx fuel (length + 1) (min mn (p.getD (idx + length - 1) 0))
        (max mx (p.getD (idx + length - 1) 0))
    else
      blockInner p n idx fuel (length + 1) (min mn (p.getD (idx + length - 1) 0))
        (max mx (p.getD (idx + length - 1) 0))

/-- the lengths `ℓ` in `range(2, n - idx + 1)` for which `blocks[ℓ].append(idx)` runs -/
def blockLens (p : NSeq) (idx : Nat) : List Nat :=
  blockInner p p.length idx (p.length - idx - 1) 2 (p.getD idx 0) (p.getD idx 0)

/-- `Perm.block_decomposition`: `blocks[ℓ]` collects, in increasing `idx`, the appended indices -/
def blockDecomposition (p : NSeq) : List (List Nat) :=
  (List.range p.length).map fun l => (List.range p.length).filter fun idx => (blockLens p idx).contains l

/-- insertion into a duplicate-free list sorted by `Perm.__lt__` -/
def insertSorted (x : NSeq) : List NSeq → List NSeq
  | [] => [x]
  | y :: ys => if x == y then y :: ys else if permLt x y then x :: y :: ys else y :: insertSorted x ys

/-- `sorted(set(l))` for perms -/
def sortDedup (l : List NSeq) : List NSeq := l.foldr insertSorted []

/-- `Perm.block_decomposition_as_pattern` (a set; sorted here) -/
def blockDecompositionAsPattern (p : NSeq) : List NSeq :=
  sortDedup ((blockDecomposition p).zipIdx.flatMap fun bl =>
    bl.1.map fun start => standardize (slice p start (start + bl.2)))

/-- `Perm.maximum_block` -/
def maximumBlock (p : NSeq) : Nat × Nat :=
  match (blockDecomposition p).zipIdx.reverse.find? (fun bl => !bl.1.isEmpty) with
  | some bl => (bl.2, bl.1.headD 0)
  | none => (0, 0)

/-- `Perm.is_simple` -/
def isSimple (p : NSeq) : Bool := (maximumBlock p).1 == 0

/-! ## monotone blocks and contractions (perm.py:2259-2381) -/

inductive MonoKind where
  | both | asc | desc

/-- the three comparators: `abs(curr - prev) == 1`, `curr - prev == 1`, `prev - curr == 1` -/
def MonoKind.cmp : MonoKind → Nat → Nat → Bool
  | .both, prev, curr => curr == prev + 1 || prev == curr + 1
  | .asc, prev, curr => curr == prev + 1
  | .desc, prev, curr => prev == curr + 1

/-- loop of `_block_decomposition_generator` over `zip(self, self[1:])`, state `idx, diff, start, length` -/
def monoGo (k : MonoKind) (withOnes : Bool) : List (Nat × Nat) → Nat → Int → Nat → Nat → List (Nat × Nat)
  | [], _, _, start, length =>
    if length > 0 ∨ withOnes = true then [(start, start + length)] else []
  | (prev, curr) :: rest, idx, diff, start, length =>
    if k.cmp prev curr = true ∧ (length = 0 ∨ (curr : Int) - (prev : Int) = diff) then
      monoGo k withOnes rest (idx + 1) ((curr : Int) - (prev : Int)) start (length + 1)
    else if length > 0 ∨ withOnes = true then
      (start, start + length) :: monoGo k withOnes rest (idx + 1) 0 (idx + 1) 0
    else monoGo k withOnes rest (idx + 1) 0 (idx + 1) 0

/-- `monotone_block_decomposition{,_ascending,_descending}(with_ones)` -/
def monoBlocks (k : MonoKind) (p : NSeq) (withOnes : Bool) : List (Nat × Nat) :=
  if p.length = 0 then [] else monoGo k withOnes (p.zip p.tail) 0 0 0 0

/-- `contract_inc_bonds`, `contract_dec_bonds`, `contract_bonds` = `monotone_quotient` -/
def contract (k : MonoKind) (p : NSeq) : NSeq :=
  standardize ((monoBlocks k p true).map fun se => p.getD se.1 0)

/-! ## shadow and covers (perm.py:2424-2446) -/

/-- `Perm.children` (a set; sorted here) -/
def children (p : NSeq) : List NSeq :=
  sortDedup ((List.range p.length).map fun i => removeAt p i)

/-- `Perm.coveredby` (a set; sorted here) -/
def coveredby (p : NSeq) : List NSeq :=
  sortDedup ((List.range (p.length + 1)).flatMap fun i =>
    (List.range (p.length + 1)).map fun j => insertAt p i j)

/-- `Perm.is_strongly_simple` -/
def isStronglySimple (p : NSeq) : Bool :=
  isSimple p && (children p).all isSimple

end Model
