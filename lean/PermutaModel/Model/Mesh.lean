import PermutaModel.Model.Perm
/-! Shared model of mesh patterns (meshpatt.py): data and occurrences in a permutation. -/

abbrev Cell := Nat × Nat

/-- `MeshPatt(pattern, shading)`; the shading is a duplicate-free list standing for the frozenset -/
structure Mesh where
  pattern : NSeq
  shading : List Cell
deriving DecidableEq, Repr

namespace Model

/-- the scan of `MeshPatt._occurrences_in_perm` (meshpatt.py:398-412) for one candidate:
    walk through `σ`, `x` counts occurrence points seen so far, `y` counts occurrence values
    below the current element; fail when a non-occurrence element lands in a shaded cell -/
def meshScan (shading : List Cell) (cand : List Nat) : List Nat → Nat → Bool
  | [], _ => true
  | e :: rest, x =>
    if cand.contains e then meshScan shading cand rest (x+1)
    else if shading.contains (x, (cand.filter (· < e)).length) then false
    else meshScan shading cand rest x

/-- `MeshPatt._occurrences_in_perm` -/
def meshOccInPerm (m : Mesh) (σ : NSeq) : List (List Nat) :=
  (occurrencesIn m.pattern σ).filter fun c =>
    meshScan m.shading (c.map fun i => σ.getD i 0) σ 0

/-- `Perm._contains` for a mesh-type argument / `MeshPatt` avoidance -/
def containsMesh (σ : NSeq) (m : Mesh) : Bool := !(meshOccInPerm m σ).isEmpty

end Model

namespace Proto
/-- mesh as two tokens `pattern cells` -/
def parseMesh (p s : String) : Mesh := ⟨parseSeq p, parseCells s⟩
/-- list of meshes `p/cells;p/cells` (`-` for none) -/
def parseMeshes (s : String) : List Mesh :=
  if s == "-" then [] else (s.splitOn ";").filterMap fun t =>
    match t.splitOn "/" with
    | [p, c] => some ⟨parseSeq p, parseCells c⟩
    | _ => none
def showMesh (m : Mesh) : String := s!"{showSeq m.pattern}/{showCells m.shading}"
end Proto
