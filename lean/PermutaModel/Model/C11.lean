import PermutaModel.Model.Perm
/-!
# C11 model — permutation statistics of `permuta/patterns/perm.py` (lines 670-2131, 2448-2479),
`permuta/misc/math.py` (`is_prime`) and the tools of `permuta/permutils/statistics.py`.

Import-free and executable.  Conventions:

* generators / comprehensions become lists in yield order; `enumerate(self)` is `enum`,
  `enumerate(zip(self, islice(self, 1, None)))` is `enum2`, the three-way zip is `enum3`;
* `sum(1 for _ in gen)` is `count1 gen` (NOT `length`: `count_eq_length_listing` proves the two agree);
* every Python `if` is an `if` of the Lean function (branch-normal form);
* `while` loops whose termination is not structural carry a fuel argument and return `none` when the
  fuel runs out (= the Python loop would still be running); `Props/C11.lean` proves for which of them
  the fuel given by the caller always suffices on permutations;
* functions are meant for permutations (`IsPerm`); on other tuples Python raises / diverges in places
  where the model returns `none` or a default.
-/

namespace Model.Stat

/-- `sum(1 for _ in gen)` -/
def count1 {α : Type} (l : List α) : Nat := (l.map fun _ => 1).sum

/-- `enumerate(self)` as `(idx, val)` -/
def enum (p : NSeq) : List (Nat × Nat) := p.zipIdx.map fun x => (x.2, x.1)

/-- `enumerate(zip(self, islice(self, 1, None)))` as `(idx, prev, curr)` -/
def enum2 (p : NSeq) : List (Nat × Nat × Nat) :=
  (p.zip (p.drop 1)).zipIdx.map fun x => (x.2, x.1.1, x.1.2)

/-- `enumerate(zip(islice(self,0,None), islice(self,1,None), islice(self,2,None)))` as `(idx, prev, curr, nxt)` -/
def enum3 (p : NSeq) : List (Nat × Nat × Nat × Nat) :=
  (p.zip ((p.drop 1).zip (p.drop 2))).zipIdx.map fun x => (x.2, x.1.1, x.1.2.1, x.1.2.2)

/-! ## fixed points (perm.py:670-703) -/

/-- `Perm.fixed_points` (perm.py:683) -/
def fixedPoints (p : NSeq) : List Nat := ((enum p).filter fun x => x.1 == x.2).map (·.1)

/-- `Perm.count_fixed_points` (perm.py:670) -/
def countFixedPoints (p : NSeq) : Nat := count1 (fixedPoints p)

/-! ## descents / ascents (perm.py:738-880) -/

/-- `Perm.descents()` with `step_size is None` (perm.py:755-762) -/
def descents (p : NSeq) : List Nat := ((enum2 p).filter fun x => x.2.1 > x.2.2).map (·.1)

/-- the comprehension of perm.py:767-773, `prev == curr + step_size` -/
def descentsBy (p : NSeq) (k : Int) : List Nat :=
  ((enum2 p).filter fun x => (x.2.1 : Int) == (x.2.2 : Int) + k).map (·.1)

/-- `Perm.descents(step_size)` with an integer step (perm.py:764-773) -/
def descentsStep (p : NSeq) (k : Int) : Except Proto.Err (List Nat) :=
  if k < 1 then .error .valueError else .ok (descentsBy p k)

/-- `Perm.ascents()` with `step_size is None` (perm.py:827-834) -/
def ascents (p : NSeq) : List Nat := ((enum2 p).filter fun x => x.2.1 < x.2.2).map (·.1)

/-- the comprehension of perm.py:839-845, `prev + step_size == curr` -/
def ascentsBy (p : NSeq) (k : Int) : List Nat :=
  ((enum2 p).filter fun x => (x.2.1 : Int) + k == (x.2.2 : Int)).map (·.1)

/-- `Perm.ascents(step_size)` (perm.py:836-845) -/
def ascentsStep (p : NSeq) (k : Int) : Except Proto.Err (List Nat) :=
  if k < 1 then .error .valueError else .ok (ascentsBy p k)

/-- `count_descents()` / `count_ascents()` (perm.py:792, 864) -/
def countDescents (p : NSeq) : Nat := count1 (descents p)
def countAscents (p : NSeq) : Nat := count1 (ascents p)
def countDescentsStep (p : NSeq) (k : Int) : Except Proto.Err Nat := (descentsStep p k).map count1
def countAscentsStep (p : NSeq) (k : Int) : Except Proto.Err Nat := (ascentsStep p k).map count1

/-! ## peaks, pinnacles, valleys, bends (perm.py:882-1084) -/

/-- `Perm.peaks` (perm.py:882) -/
def peaks (p : NSeq) : List Nat :=
  ((enum3 p).filter fun x => x.2.1 < x.2.2.1 && x.2.2.1 > x.2.2.2).map (·.1 + 1)

/-- `Perm.count_peaks` (perm.py:919); `count_pinnacles`, `num_peaks`, `num_pinnacles` are aliases -/
def countPeaks (p : NSeq) : Nat := count1 (peaks p)

/-- `Perm.pinnacles` (perm.py:936): the values at the peaks -/
def pinnacles (p : NSeq) : List Nat :=
  ((enum3 p).filter fun x => x.2.1 < x.2.2.1 && x.2.2.1 > x.2.2.2).map (·.2.2.1)

/-- `Perm.valleys` (perm.py:996) -/
def valleys (p : NSeq) : List Nat :=
  ((enum3 p).filter fun x => x.2.1 > x.2.2.1 && x.2.2.1 < x.2.2.2).map (·.1 + 1)

def countValleys (p : NSeq) : Nat := count1 (valleys p)

/-- `Perm.bends` (perm.py:1048) -/
def bends (p : NSeq) : List Nat :=
  ((enum3 p).filter fun x =>
    (x.2.1 < x.2.2.1 && x.2.2.1 > x.2.2.2) || (x.2.1 > x.2.2.1 && x.2.2.1 < x.2.2.2)).map (·.1 + 1)

/-! ## primes (math.py:1-12, perm.py:977-991) -/

/-- the `while i**2 <= n` loop of `is_prime` (math.py:8-11) -/
def isPrimeLoop (n i : Nat) : Bool :=
  if i * i ≤ n then
    if n % i == 0 || n % (i + 2) == 0 then false
    else isPrimeLoop n (i + 6)
  else true
termination_by n + 1 - i
decreasing_by
  have := Nat.le_mul_self i
  omega

/-- `is_prime` (math.py:1) on a natural number -/
def isPrime (n : Nat) : Bool :=
  if n ≤ 3 then decide (n > 1)
  else if n % 2 == 0 || n % 3 == 0 then false
  else isPrimeLoop n 5

/-- `is_prime` on a Python int: negative numbers take the `n <= 3` branch and give `False` -/
def isPrimeZ (z : Int) : Bool := if z < 0 then false else isPrime z.toNat

/-- `Perm.count_column_sum_primes` (perm.py:977) -/
def countColumnSumPrimes (p : NSeq) : Nat :=
  count1 ((enum p).filter fun x => isPrime (x.2 + x.1 + 2))

/-! ## records (perm.py:1100-1194) -/

/-- loop of `Perm.ltrmin` (perm.py:1107-1111): state `min_val`, index -/
def ltrminGo : Nat → Nat → List Nat → List Nat
  | _, _, [] => []
  | m, i, v :: t => if v < m then i :: ltrminGo v (i + 1) t else ltrminGo m (i + 1) t

/-- `Perm.ltrmin` (perm.py:1100): `min_val` starts at `len(self)` -/
def ltrmin (p : NSeq) : List Nat := ltrminGo p.length 0 p

/-- loop of `_rtlmin_reverse_list` (perm.py:1122-1128) over `reversed(self)` -/
def rtlminRevGo (n : Nat) : Nat → Nat → List Nat → List Nat
  | _, _, [] => []
  | m, i, v :: t =>
    if v < m then (n - i - 1) :: rtlminRevGo n v (i + 1) t else rtlminRevGo n m (i + 1) t

def rtlminReverseList (p : NSeq) : List Nat := rtlminRevGo p.length p.length 0 p.reverse

/-- `Perm.rtlmin` (perm.py:1113) -/
def rtlmin (p : NSeq) : List Nat := (rtlminReverseList p).reverse

/-- loop of `Perm.ltrmax` (perm.py:1137-1141): `max_val` starts at `-1` -/
def ltrmaxGo : Int → Nat → List Nat → List Nat
  | _, _, [] => []
  | m, i, v :: t => if (v : Int) > m then i :: ltrmaxGo v (i + 1) t else ltrmaxGo m (i + 1) t

/-- `Perm.ltrmax` (perm.py:1130) -/
def ltrmax (p : NSeq) : List Nat := ltrmaxGo (-1) 0 p

/-- loop of `_rtlmax_reverse_list` (perm.py:1152-1158) -/
def rtlmaxRevGo (n : Nat) : Int → Nat → List Nat → List Nat
  | _, _, [] => []
  | m, i, v :: t =>
    if (v : Int) > m then (n - i - 1) :: rtlmaxRevGo n v (i + 1) t else rtlmaxRevGo n m (i + 1) t

def rtlmaxReverseList (p : NSeq) : List Nat := rtlmaxRevGo p.length (-1) 0 p.reverse

/-- `Perm.rtlmax` (perm.py:1143) -/
def rtlmax (p : NSeq) : List Nat := (rtlmaxReverseList p).reverse

/-- `count_ltrmin`, `count_ltrmax` use `sum(1 for …)`, `count_rtlmin`, `count_rtlmax` use `len` (perm.py:1160-1194) -/
def countLtrmin (p : NSeq) : Nat := count1 (ltrmin p)
def countLtrmax (p : NSeq) : Nat := count1 (ltrmax p)
def countRtlmin (p : NSeq) : Nat := (rtlminReverseList p).length
def countRtlmax (p : NSeq) : Nat := (rtlmaxReverseList p).length

/-- `Perm.strong_fixed_points` (perm.py:694) -/
def strongFixedPoints (p : NSeq) : List Nat := (ltrmax p).filter fun i => i == p.getD i 0

/-! ## inversions (perm.py:1198-1224, 1808-1847) -/

/-- `while element: bit[0] += bit[element]; element &= element - 1` (perm.py:1215-1218) -/
def fenQuery (bit : List Nat) (e : Nat) : List Nat :=
  if e = 0 then bit
  else fenQuery (bit.set 0 (bit.getD 0 0 + bit.getD e 0)) (e &&& (e - 1))
termination_by e
decreasing_by
  have := @Nat.and_le_right e (e - 1)
  omega

/-- `while bit_index < bit_len: bit[bit_index] += 1; bit_index += bit_index & -bit_index`
    (perm.py:1220-1223).  `x & -x` (lowest set bit) is written `x - (x & (x-1))`; `bit_index` is
    `element + 1 ≥ 1` at every call (at `0` the Python loop would not advance). -/
def fenUpdate (bitLen : Nat) (bit : List Nat) (i : Nat) : List Nat :=
  if i < bitLen ∧ 0 < i then
    fenUpdate bitLen (bit.set i (bit.getD i 0 + 1)) (i + (i - (i &&& (i - 1))))
  else bit
termination_by bitLen - i
decreasing_by
  have := @Nat.and_le_right i (i - 1)
  omega

/-- `Perm.count_inversions` (perm.py:1198): Fenwick tree over `reversed(self)` -/
def countInversions (p : NSeq) : Nat :=
  (p.reverse.foldl (fun bit e => fenUpdate (p.length + 1) (fenQuery bit e) (e + 1))
    (List.replicate (p.length + 1) 0)).getD 0 0

/-- `Perm.inversions` (perm.py:1808): nested loops `i`, `j in range(i+1, n)` -/
def inversions (p : NSeq) : List (Nat × Nat) :=
  (enum p).flatMap fun x =>
    ((List.range' (x.1 + 1) (p.length - (x.1 + 1))).filter fun j => x.2 > p.getD j 0).map fun j => (x.1, j)

/-- `Perm.non_inversions` (perm.py:1835) -/
def nonInversions (p : NSeq) : List (Nat × Nat) :=
  (enum p).flatMap fun x =>
    ((List.range' (x.1 + 1) (p.length - (x.1 + 1))).filter fun j => x.2 < p.getD j 0).map fun j => (x.1, j)

/-- `Perm.count_non_inversions` (perm.py:1822): `n*(n-1)//2 - count_inversions()` -/
def countNonInversions (p : NSeq) : Int :=
  ((p.length * (p.length - 1) / 2 : Nat) : Int) - (countInversions p : Int)

/-- `Perm.rank_encoding` (perm.py:2167): one increment per inversion at its left index -/
def rankEncoding (p : NSeq) : List Nat :=
  (inversions p).foldl (fun re x => re.set x.1 (re.getD x.1 0 + 1)) (List.replicate p.length 0)

/-! ## bounces, drops, holeyness (perm.py:1226-1292) -/

/-- `max(l)` of a non-empty list of naturals -/
def maxNat (l : List Nat) : Nat := l.foldl max 0

/-- `max(l, default=d)` on integers -/
def maxIntD (l : List Int) (d : Int) : Int :=
  match l with
  | [] => d
  | x :: t => t.foldl max x

/-- the `while bounce_arr[-1] < n` loop (perm.py:1243-1244); fuel = number of iterations allowed -/
def bounceGo (inv : NSeq) (n : Nat) : Nat → Nat → List Nat → Option (List Nat)
  | 0, last, acc => if last < n then none else some acc
  | f + 1, last, acc =>
    if last < n then
      bounceGo inv n f (maxNat (inv.take (last + 1)) + 1) (acc ++ [maxNat (inv.take (last + 1)) + 1])
    else some acc

/-- `Perm.count_bounces` (perm.py:1226) -/
def countBounces (p : NSeq) : Option Int :=
  if p.length = 0 then some 0
  else
    (bounceGo (inverse p) p.length p.length ((inverse p).getD 0 0 + 1) [(inverse p).getD 0 0 + 1]).map
      fun arr => (arr.map fun (i : Nat) => (p.length : Int) - (i : Int)).sum

/-- `Perm.max_drop_size` (perm.py:1247): `max((val - idx …), default=0)` -/
def maxDropSize (p : NSeq) : Int := maxIntD ((enum p).map fun x => (x.2 : Int) - (x.1 : Int)) 0

/-- `_delta` (perm.py:1281) -/
def delta (s : List Nat) : Nat := count1 (s.filter fun x => !(s.contains (x + 1)))

/-- `_set_generator(num)` (perm.py:1284): subsets of `range(num)` by size, lexicographic -/
def setGenerator (n : Nat) : List (List Nat) :=
  (List.range (n + 1)).flatMap fun y => Spec.subLen y (List.range n)

/-- `Perm.holeyness` (perm.py:1265) -/
def holeyness (p : NSeq) : Int :=
  maxIntD ((setGenerator p.length).map fun s =>
    (delta ((s.map fun i => p.getD i 0).eraseDups) : Int) - (delta s : Int)) 0

/-! ## sorting counts (perm.py:1294-1352, 2725-2761) -/

def argmaxGo : Nat → Nat → Nat → List Nat → Nat × Nat
  | bi, bv, _, [] => (bi, bv)
  | bi, bv, i, v :: t => if v > bv then argmaxGo i v (i + 1) t else argmaxGo bi bv (i + 1) t

/-- `max(enumerate(l), key=lambda pe: pe[1])` (first position of the maximum) -/
def argmax (l : List Nat) : Nat × Nat :=
  match l with
  | [] => (0, 0)
  | v :: t => argmaxGo 0 v 1 t

theorem argmaxGo_lt (bi bv i : Nat) (t : List Nat) (h : bi < i) :
    (argmaxGo bi bv i t).1 < i + t.length := by
  induction t generalizing bi bv i with
  | nil => simpa [argmaxGo] using h
  | cons v t ih =>
    unfold argmaxGo
    split
    · have := ih i v (i + 1) (by omega); simp only [List.length_cons]; omega
    · have := ih bi bv (i + 1) (by omega); simp only [List.length_cons]; omega

theorem argmax_lt (l : List Nat) (h : l ≠ []) : (argmax l).1 < l.length := by
  cases l with
  | nil => exact absurd rfl h
  | cons v t =>
    have := argmaxGo_lt 0 v 1 t (by omega)
    simp only [argmax, List.length_cons]; omega

/-- `Perm._stack_sort` (perm.py:2725): three branches on the position of the maximum -/
def stackSort (l : List Nat) : List Nat :=
  if l.length = 0 ∨ l.length = 1 then l
  else if (argmax l).1 = 0 then stackSort (l.drop 1) ++ [(argmax l).2]
  else if (argmax l).1 = l.length - 1 then stackSort (l.take (l.length - 1)) ++ [(argmax l).2]
  else stackSort (l.take (argmax l).1) ++ stackSort (l.drop ((argmax l).1 + 1)) ++ [(argmax l).2]
termination_by l.length
decreasing_by
  all_goals simp only [List.length_drop, List.length_take]
  all_goals (have := argmax_lt l (by intro h; simp_all); omega)

/-- the `while perm_list != identity` loop of `count_stack_sorts` (perm.py:1319-1321) -/
def countStackSortsGo (ident : List Nat) : Nat → List Nat → Nat → Option Nat
  | 0, cur, num => if cur != ident then none else some num
  | f + 1, cur, num =>
    if cur != ident then countStackSortsGo ident f (stackSort cur) (num + 1) else some num

/-- `Perm.count_stack_sorts` (perm.py:1294); fuel `len(self)` -/
def countStackSorts (p : NSeq) : Option Nat :=
  countStackSortsGo (List.range p.length) p.length p 0

/-- loop of `Perm.pop_stack_sort` (perm.py:2750): `stack` is the deque read from the left -/
def popStackGo : List Nat → List Nat → List Nat → List Nat
  | stack, result, [] => result ++ stack
  | stack, result, num :: t =>
    if !stack.isEmpty && num > stack.headD 0 then popStackGo [num] (result ++ stack) t
    else popStackGo (num :: stack) result t

def popStackSort (p : NSeq) : NSeq := popStackGo [] [] p

/-- the `while not perm.is_increasing()` loop of `count_pop_stack_sorts` (perm.py:1349-1351) -/
def countPopStackSortsGo : Nat → NSeq → Nat → Option Nat
  | 0, cur, num => if !isIncreasing cur then none else some num
  | f + 1, cur, num =>
    if !isIncreasing cur then countPopStackSortsGo f (popStackSort cur) (num + 1) else some num

/-- `Perm.count_pop_stack_sorts` (perm.py:1324); fuel `len(self)` -/
def countPopStackSorts (p : NSeq) : Option Nat := countPopStackSortsGo p.length p 0

/-! ## cyclic statistics (perm.py:1354-1618) -/

/-- `Perm.cyclic_peaks` (perm.py:1354): `idx < val > self[val]` -/
def cyclicPeaks (p : NSeq) : List Nat :=
  ((enum p).filter fun x => x.1 < x.2 && x.2 > p.getD x.2 0).map (·.1)

/-- `Perm.cyclic_valleys` (perm.py:1425): `idx > val < self[val]` -/
def cyclicValleys (p : NSeq) : List Nat :=
  ((enum p).filter fun x => x.1 > x.2 && x.2 < p.getD x.2 0).map (·.1)

/-- `Perm.double_excedance` (perm.py:1490): `idx < val < self[val]` -/
def doubleExcedance (p : NSeq) : List Nat :=
  ((enum p).filter fun x => x.1 < x.2 && x.2 < p.getD x.2 0).map (·.1)

/-- `Perm.double_drops` (perm.py:1555): `idx > val > self[val]` -/
def doubleDrops (p : NSeq) : List Nat :=
  ((enum p).filter fun x => x.1 > x.2 && x.2 > p.getD x.2 0).map (·.1)

def countCyclicPeaks (p : NSeq) : Nat := count1 (cyclicPeaks p)
def countCyclicValleys (p : NSeq) : Nat := count1 (cyclicValleys p)
def countDoubleExcedance (p : NSeq) : Nat := count1 (doubleExcedance p)
def countDoubleDrops (p : NSeq) : Nat := count1 (doubleDrops p)

/-! ## fore/after maxima/minima (perm.py:1620-1806): `list(set(a) & set(b))`, printed sorted -/

/-- sorted elements of `set(a) & set(b)` for an increasing list `a` -/
def interSorted (a b : List Nat) : List Nat := a.filter fun i => b.contains i

/-- `Perm.foremaxima` (perm.py:1620): `ascent_set(step_size=2)` ∩ `ltrmax` -/
def foremaxima (p : NSeq) : List Nat := interSorted (ascentsBy p 2) (ltrmax p)
/-- `Perm.afterminima` (perm.py:1664): `ascent_set(step_size=2)` ∩ `rtlmin` -/
def afterminima (p : NSeq) : List Nat := interSorted (ascentsBy p 2) (rtlmin p)
/-- `Perm.aftermaxima` (perm.py:1712): `descents(step_size=2)` ∩ `rtlmax` -/
def aftermaxima (p : NSeq) : List Nat := interSorted (descentsBy p 2) (rtlmax p)
/-- `Perm.foreminima` (perm.py:1760): `descents(step_size=2)` ∩ `ltrmin` -/
def foreminima (p : NSeq) : List Nat := interSorted (descentsBy p 2) (ltrmin p)

def countForemaxima (p : NSeq) : Nat := (foremaxima p).length
def countAfterminima (p : NSeq) : Nat := (afterminima p).length
def countAftermaxima (p : NSeq) : Nat := (aftermaxima p).length
def countForeminima (p : NSeq) : Nat := (foreminima p).length

/-! ## gaps and bonds (perm.py:1849-1954) -/

def absDiff (a b : Nat) : Nat := if a ≤ b then b - a else a - b

/-- `itertools.combinations(range(n), 2)` -/
def pairsLt (n : Nat) : List (Nat × Nat) :=
  (List.range n).flatMap fun i => (List.range' (i + 1) (n - (i + 1))).map fun j => (i, j)

/-- `Perm.min_gapsize` (perm.py:1849): `min()` of an empty generator raises `ValueError` -/
def minGapsize (p : NSeq) : Except Proto.Err Nat :=
  match (pairsLt p.length).map fun x => absDiff x.1 x.2 + absDiff (p.getD x.1 0) (p.getD x.2 0) with
  | [] => .error .valueError
  | g :: t => .ok (t.foldl min g)

/-- `Perm.all_bonds` (perm.py:1862) -/
def allBonds (p : NSeq) : List Nat :=
  ((enum2 p).filter fun x => x.2.2 == x.2.1 + 1 || x.2.1 == x.2.2 + 1).map (·.1)
/-- `Perm.inc_bonds` (perm.py:1898) -/
def incBonds (p : NSeq) : List Nat := ((enum2 p).filter fun x => x.2.2 == x.2.1 + 1).map (·.1)
/-- `Perm.dec_bonds` (perm.py:1927) -/
def decBonds (p : NSeq) : List Nat := ((enum2 p).filter fun x => x.2.1 == x.2.2 + 1).map (·.1)

def countBonds (p : NSeq) : Nat := count1 (allBonds p)
def countIncBonds (p : NSeq) : Nat := count1 (incBonds p)
def countDecBonds (p : NSeq) : Nat := count1 (decBonds p)

/-! ## major index, depth, runs (perm.py:1956-2066) -/

/-- `Perm.major_index` (perm.py:1956) -/
def majorIndex (p : NSeq) : Nat := ((descents p).map fun d => 1 + d).sum

/-- `Perm.depth` (perm.py:1968) -/
def depth (p : NSeq) : Nat := (((enum p).filter fun x => x.2 > x.1).map fun x => x.2 - x.1).sum

/-- loop of `maximal_decreasing_run` (perm.py:1993-1999) with its `break`; returns the final `next_val` -/
def mdrGo : Int → Int → List Nat → Int
  | nv, _, [] => nv
  | nv, mni, v :: t =>
    if (v : Int) = nv then
      if nv - 1 < mni then nv - 1 else mdrGo (nv - 1) mni t
    else if (v : Int) > mni then
      if nv < (v : Int) then nv else mdrGo nv v t
    else
      if nv < mni then nv else mdrGo nv mni t

/-- `Perm.maximal_decreasing_run` (perm.py:1979) -/
def maximalDecreasingRun (p : NSeq) : Int := (p.length : Int) - mdrGo ((p.length : Int) - 1) (-1) p - 1

/-- loop of `longestruns_ascending` (perm.py:2019-2027): state `maxi`, `cur`, `res` -/
def lraGo : Nat → Nat → List Nat → List (Nat × Nat × Nat) → Nat × Nat × List Nat
  | maxi, cur, res, [] => (maxi, cur, res)
  | maxi, cur, res, x :: t =>
    if x.2.1 < x.2.2 then
      if x.1 - cur + 2 > maxi then lraGo (x.1 - cur + 2) cur [] t
      else lraGo maxi cur res t
    else
      if x.1 - cur + 1 == maxi then lraGo maxi (x.1 + 1) (res ++ [cur]) t
      else lraGo maxi (x.1 + 1) res t

/-- `Perm.longestruns_ascending` (perm.py:2002) -/
def longestrunsAscending (p : NSeq) : Nat × List Nat :=
  if p.length = 0 then (0, [])
  else if p.length - (lraGo 1 0 [] (enum2 p)).2.1 == (lraGo 1 0 [] (enum2 p)).1 then
    ((lraGo 1 0 [] (enum2 p)).1, (lraGo 1 0 [] (enum2 p)).2.2 ++ [(lraGo 1 0 [] (enum2 p)).2.1])
  else ((lraGo 1 0 [] (enum2 p)).1, (lraGo 1 0 [] (enum2 p)).2.2)

/-- `Perm.longestruns_descending` (perm.py:2032) -/
def longestrunsDescending (p : NSeq) : Nat × List Nat := longestrunsAscending (complement p)

def lengthOfLongestrunAscending (p : NSeq) : Nat := (longestrunsAscending p).1
def lengthOfLongestrunDescending (p : NSeq) : Nat := lengthOfLongestrunAscending (complement p)

/-! ## cycles (perm.py:1086-1098, 2068-2110, 2903-2914) -/

/-- inner `while val != max_not_seen` loop (perm.py:2083-2086).  `none` = `KeyError` of
    `remaining_elements.remove` or fuel exhausted (neither happens on permutations) -/
def cycleInner (p : NSeq) (m : Nat) : Nat → Nat → List Nat → List Nat → Option (List Nat × List Nat)
  | 0, val, cyc, rem => if val != m then none else some (cyc, rem)
  | f + 1, val, cyc, rem =>
    if val != m then
      if rem.contains (p.getD val 0) then
        cycleInner p m f (p.getD val 0) (cyc ++ [val]) (rem.erase (p.getD val 0))
      else none
    else some (cyc, rem)

/-- outer `while remaining_elements` loop (perm.py:2079-2087); `appendleft` = cons -/
def cycleDecompGo (p : NSeq) : Nat → List Nat → List (List Nat) → Option (List (List Nat))
  | 0, rem, acc => if !rem.isEmpty then none else some acc
  | f + 1, rem, acc =>
    if !rem.isEmpty then
      if rem.contains (p.getD (maxNat rem) 0) then
        match cycleInner p (maxNat rem) p.length (p.getD (maxNat rem) 0) [maxNat rem]
            (rem.erase (p.getD (maxNat rem) 0)) with
        | none => none
        | some r => cycleDecompGo p f r.2 (r.1 :: acc)
      else none
    else some acc

/-- `Perm.cycle_decomp` (perm.py:2068) -/
def cycleDecomp (p : NSeq) : Option (List (List Nat)) := cycleDecompGo p p.length (List.range p.length) []

/-- `Perm.count_cycles` (perm.py:2090) -/
def countCycles (p : NSeq) : Option Nat := (cycleDecomp p).map List.length

/-- `Perm.order` (perm.py:1086): running lcm of the cycle lengths -/
def order (p : NSeq) : Option Nat :=
  (cycleDecomp p).map fun cs => (cs.map List.length).foldl (fun acc c => acc * c / Nat.gcd acc c) 1

/-- `Perm.cycle_notation` (perm.py:2903) -/
def cycleNotation (p : NSeq) : Option String :=
  if p.length = 0 then some "( )"
  else (cycleDecomp p).map fun cs =>
    " ".intercalate (cs.map fun c => "( " ++ " ".intercalate (c.map toString) ++ " )")

/-- `Perm.is_involution` (perm.py:2100) -/
def isInvolution (p : NSeq) : Bool := p == inverse p

/-! ## pattern counts (perm.py:2135-2165) -/

/-- `threepats` / `fourpats`: the `Counter` of standardised `k`-subsequences, as the list of
    (pattern, positive count) sorted by pattern -/
def kpats (k : Nat) (p : NSeq) : List (NSeq × Nat) :=
  (permsLex k).filterMap fun q =>
    if ((Spec.subLen k p).map standardize).count q > 0 then
      some (q, ((Spec.subLen k p).map standardize).count q)
    else none

/-! ## layers (perm.py:2448-2479) -/

/-- `sorted(set(chain(perm.rtlmax(), perm.ltrmin())))` -/
def layerPositions (perm : NSeq) : List Nat :=
  (List.range perm.length).filter fun i => (rtlmax perm).contains i || (ltrmin perm).contains i

/-- the `while len(perm) > 0` loop (perm.py:2476-2479).  The remainder is NOT re-standardised:
    `ltrmin` of the remainder still starts from `min_val = len(remainder)`. -/
def layersGo : Nat → NSeq → Option (List (List Nat))
  | 0, perm => if perm.length > 0 then none else some []
  | f + 1, perm =>
    if perm.length > 0 then
      (layersGo f (((enum perm).filter fun x => !(layerPositions perm).contains x.1).map (·.2))).map
        fun r => layerPositions perm :: r
    else some []

/-- `Perm.rtlmax_ltrmin_decomposition` (perm.py:2462) -/
def rtlmaxLtrminDecomposition (p : NSeq) : Option (List (List Nat)) := layersGo p.length p

/-- `Perm.count_rtlmax_ltrmin_layers` (perm.py:2448) -/
def countRtlmaxLtrminLayers (p : NSeq) : Option Nat := (rtlmaxLtrminDecomposition p).map count1

/-! ## longest monotone subsequences — NOT in perm.py at the pinned commit.
    Model of the function proposed by `patches/c11-fix-lis.diff` (patience-free O(n²) DP). -/

/-- `best[i] = 1 + max(best[j] for j < i if self[j] < self[i], default=0)`; returns `max(best, default=0)` -/
def lisDP (lt : Nat → Nat → Bool) (p : NSeq) : Nat :=
  maxNat ((List.range p.length).foldl (fun best i =>
    best ++ [1 + maxNat (((List.range i).filter fun j => lt (p.getD j 0) (p.getD i 0)).map fun j => best.getD j 0)]) [])

def lengthOfLongestIncreasingSubsequence (p : NSeq) : Nat := lisDP (fun a b => a < b) p
def lengthOfLongestDecreasingSubsequence (p : NSeq) : Nat := lisDP (fun a b => a > b) p

end Model.Stat
