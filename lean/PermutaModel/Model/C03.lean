import PermutaModel.Model.Mesh
/-! C03 model: `MeshPatt.__init__` (meshpatt.py:16-31), `BivincularPatt._to_shading` and the three
    constructors (bivincularpatt.py:12-34, 111-152), target dispatch of `MeshPatt.occurrences_in`
    (meshpatt.py:361-389), `Perm.contains/avoids` with mixed arguments (perm.py:2481-2528) and a
    mesh-pattern *object* whose underlying `Perm` memoises its search table. -/
open Proto

namespace Model

/-- `MeshPatt(pattern, shading)`: the assert on the coordinates, then the frozenset -/
def mkMesh (π : NSeq) (cells : List Cell) : Except Err Mesh :=
  if cells.all (fun c => c.1 ≤ π.length && c.2 ≤ π.length) then .ok ⟨π, cells.eraseDups⟩
  else .error .assertion

/-- `((idx, val) for val in range(n + 1))` -/
def colCells (n i : Nat) : List Cell := (List.range (n+1)).map fun v => (i, v)
/-- `((idx, val) for idx in range(n + 1))` -/
def rowCells (n v : Nat) : List Cell := (List.range (n+1)).map fun i => (i, v)

/-- second loop of `_to_shading` (bivincularpatt.py:21-23) -/
def toShadingVals (n : Nat) : List Int → Except Err (List Cell)
  | [] => .ok []
  | v :: rest =>
    if 0 ≤ v ∧ v ≤ (n : Int) then
      match toShadingVals n rest with
      | .ok r => .ok (rowCells n v.toNat ++ r)
      | .error e => .error e
    else .error .assertion

/-- `BivincularPatt._to_shading` (bivincularpatt.py:12-23): cells in yield order, duplicates kept;
    the generator is consumed completely by `frozenset(...)`, so a failing assert surfaces -/
def toShading (n : Nat) : List Int → List Int → Except Err (List Cell)
  | [], vals => toShadingVals n vals
  | i :: rest, vals =>
    if 0 ≤ i ∧ i ≤ (n : Int) then
      match toShading n rest vals with
      | .ok r => .ok (colCells n i.toNat ++ r)
      | .error e => .error e
    else .error .assertion

/-- `BivincularPatt(perm, adjacent_indices, adjacent_values)` -/
def bivincular (π : NSeq) (I V : List Int) : Except Err Mesh :=
  match toShading π.length I V with
  | .ok sh => mkMesh π sh
  | .error e => .error e

/-- `VincularPatt(perm, adjacent_indices)` -/
def vincular (π : NSeq) (I : List Int) : Except Err Mesh := bivincular π I []
/-- `CovincularPatt(perm, adjacent_values)` -/
def covincular (π : NSeq) (V : List Int) : Except Err Mesh := bivincular π [] V

/-- an argument of `Perm.contains(*patts)`: a classical pattern, a mesh-type pattern, or
    something that is not a `Patt` -/
inductive Item where
  | perm (p : NSeq)
  | mesh (m : Mesh)
  | bad
deriving Repr

/-- `Perm._contains(patt)` (perm.py:2499-2502) -/
def containsItem (σ : NSeq) : Item → Except Err Bool
  | .perm p => .ok (containsOne σ p)
  | .mesh m => .ok (containsMesh σ m)
  | .bad => .error .typeError

/-- `Perm.contains(*patts)`: `all(self._contains(patt) for patt in patts)`, left to right,
    stopping at the first `False` (a later non-`Patt` argument is then never looked at) -/
def containsMixed (σ : NSeq) : List Item → Except Err Bool
  | [] => .ok true
  | it :: rest =>
    match containsItem σ it with
    | .error e => .error e
    | .ok true => containsMixed σ rest
    | .ok false => .ok false

/-- `Perm.avoids(*patts)` / `avoids_set`: `all(not self._contains(patt) for patt in patts)` -/
def avoidsMixed (σ : NSeq) : List Item → Except Err Bool
  | [] => .ok true
  | it :: rest =>
    match containsItem σ it with
    | .error e => .error e
    | .ok false => avoidsMixed σ rest
    | .ok true => .ok false

/-- `Patt.contained_in(*perms)` for a mesh pattern: `all(perm.contains(self))` -/
def meshContainedIn (m : Mesh) (ss : List NSeq) : Bool := ss.all fun s => containsMesh s m
/-- `Patt.avoided_by(*perms)` -/
def meshAvoidedBy (m : Mesh) (ss : List NSeq) : Bool := ss.all fun s => !containsMesh s m
/-- `Patt.count_occurrences_in` -/
def meshCount (m : Mesh) (σ : NSeq) : Nat := (meshOccInPerm m σ).length

/-- target of `occurrences_in`: a `Perm`, a `MeshPatt` or anything else -/
inductive Target where
  | perm (σ : NSeq)
  | mesh (μ : Mesh)
  | other
deriving Repr

/-- dispatch of `MeshPatt.occurrences_in` on the target type (meshpatt.py:384-388); the
    mesh-in-mesh branch (`_occurrences_in_mesh`, modelled in C06) is a parameter -/
def meshOccDispatch (inMesh : Mesh → Mesh → Except Err (List (List Nat))) (m : Mesh) :
    Target → Except Err (List (List Nat))
  | .other => .error .assertion
  | .perm σ => .ok (meshOccInPerm m σ)
  | .mesh μ => inMesh m μ

/-- a mesh pattern object: its underlying `Perm` object carries the memoised search table -/
structure MeshObj where
  patt : PattObj
  shading : List Cell

/-- `MeshPatt.occurrences_in(Perm)` on an object: the classical search goes through the
    underlying pattern object (`self.pattern.occurrences_in(patt)`) -/
def MeshObj.search (o : MeshObj) (σ : NSeq) : MeshObj × List (List Nat) :=
  ({ o with patt := (o.patt.search σ).1 },
   (o.patt.search σ).2.filter fun c => meshScan o.shading (c.map fun i => σ.getD i 0) σ 0)

end Model
