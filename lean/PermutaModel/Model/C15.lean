import PermutaModel.Basic
import PermutaModel.Generated.Tables
/-!
# C15 — model of the basis automaton of `permuta/permutils/pin_words.py`

Import-free, executable.  Words are `List Char`.  Sections:

1. small own copies of the pin-word helpers needed here (`pinword_to_perm` over `Rat`,
   `pinwords_of_length`, the perm → pin words table, `is_strict_pinword`, `factor_pinword`,
   `sp_to_m`, `m_to_sp`) – the full pin-word model is C14's;
2. `make_nfa_for_pinword` mirrored as data, with the model's own NFA semantics
   (`nfaAccepts`, subset simulation);
3. `make_dfa_for_m` read from the generated table;
4. the basis automaton as "accepted by the NFA of some pin word of some basis element";
5. the model's own determinise / minimise / product pipeline and finiteness test
   (`has_finite_pinperms`).  `automata-lib` is *not* modelled.
-/

namespace Model.C15

abbrev Word := List Char

def DIRS : List Char := Generated.c15_DIRS
def QUADS : List Char := Generated.c15_QUADS

def showWord (w : Word) : String := if w.isEmpty then "_" else String.ofList w
def parseWord (s : String) : Word := if s == "_" then [] else s.toList

/-! ## 1. pin-word helpers (own small copies) -/

abbrev Pt := Rat × Rat

def ratMax? (l : List Rat) : Option Rat :=
  l.foldl (fun acc x => match acc with
    | none => some x
    | some m => some (if m < x then x else m)) none

def ratMin? (l : List Rat) : Option Rat :=
  l.foldl (fun acc x => match acc with
    | none => some x
    | some m => some (if x < m then x else m)) none

/-- `max(pre_perm, key=..)[0]`: `ValueError` on the empty list -/
def maxX (l : List Pt) : Except Proto.Err Rat :=
  match ratMax? (l.map (·.1)) with | some v => .ok v | none => .error .valueError
def minX (l : List Pt) : Except Proto.Err Rat :=
  match ratMin? (l.map (·.1)) with | some v => .ok v | none => .error .valueError
def maxY (l : List Pt) : Except Proto.Err Rat :=
  match ratMax? (l.map (·.2)) with | some v => .ok v | none => .error .valueError
def minY (l : List Pt) : Except Proto.Err Rat :=
  match ratMin? (l.map (·.2)) with | some v => .ok v | none => .error .valueError

def half : Rat := 1 / 2

/-- `char_u` / `char_d` (pinword_util.py): `up = true` for `U` -/
def charVert (up : Bool) (pre : List Pt) : Except Proto.Err Pt := do
  let last := pre.getLast?.getD (0, 0)
  let rest := pre.dropLast
  let mxr ← maxX rest
  let mnr ← minX rest
  let ny ← if up then (do let m ← maxY pre; pure (m + 1)) else (do let m ← minY pre; pure (m - 1))
  if last.1 > mxr then pure (half * (last.1 + mxr), ny)
  else if last.1 < mnr then pure (half * (last.1 + mnr), ny)
  else .error .assertion

/-- `char_l` / `char_r`: `right = true` for `R` -/
def charHoriz (right : Bool) (pre : List Pt) : Except Proto.Err Pt := do
  let last := pre.getLast?.getD (0, 0)
  let rest := pre.dropLast
  let mxr ← maxY rest
  let mnr ← minY rest
  let nx ← if right then (do let m ← maxX pre; pure (m + 1)) else (do let m ← minX pre; pure (m - 1))
  if last.2 > mxr then pure (nx, half * (last.2 + mxr))
  else if last.2 < mnr then pure (nx, half * (last.2 + mnr))
  else .error .assertion

/-- `PinWordUtil.call` -/
def callChar (c : Char) (pre : List Pt) : Except Proto.Err Pt :=
  if c == '1' then do pure ((← maxX pre) + 1, (← maxY pre) + 1)
  else if c == '2' then do pure ((← minX pre) - 1, (← maxY pre) + 1)
  else if c == '3' then do pure ((← minX pre) - 1, (← minY pre) - 1)
  else if c == '4' then do pure ((← maxX pre) + 1, (← minY pre) - 1)
  else if c == 'U' then charVert true pre
  else if c == 'D' then charVert false pre
  else if c == 'L' then charHoriz false pre
  else if c == 'R' then charHoriz true pre
  else .error .keyError

def placePins : List Pt → Word → Except Proto.Err (List Pt)
  | pre, [] => .ok pre
  | pre, c :: w => do
    let p ← callChar c pre
    if p.1 == 0 || p.2 == 0 then .error .assertion
    else placePins (pre ++ [p]) w

/-- `PinWords.pinword_to_perm` (pin_words.py:25-52) -/
def pinwordToPerm (w : Word) : Except Proto.Err NSeq := do
  let pts ← placePins [(0, 0)] w
  let pts := pts.drop 1
  let srt := pts.mergeSort fun a b => a.1 < b.1 || (a.1 == b.1 && a.2 ≤ b.2)
  pure (srt.map fun p => (srt.filter fun q => q.2 < p.2).length)

/-- `PinWords.pinwords_of_length` (pin_words.py:54-72), in generator order -/
def pinwordsOfLength : Nat → List Word
  | 0 => [[]]
  | n + 1 => (pinwordsOfLength n).flatMap fun w =>
      (if !w.isEmpty && w.getLast? != some 'U' && w.getLast? != some 'D'
        then [w ++ ['U'], w ++ ['D']] else []) ++
      (if !w.isEmpty && w.getLast? != some 'R' && w.getLast? != some 'L'
        then [w ++ ['L'], w ++ ['R']] else []) ++
      QUADS.map fun c => w ++ [c]

def decodesTo (p : NSeq) (w : Word) : Bool :=
  match pinwordToPerm w with
  | .ok q => q == p
  | .error _ => false

/-- `perm_to_pinword_mapping(len(perm))[perm]` (a `defaultdict(set)`: a perm that no pin word
    encodes has the empty set); order of the generator -/
def permToPinwords (p : NSeq) : List Word := (pinwordsOfLength p.length).filter (decodesTo p)

def wordLe (a b : Word) : Bool := decide (String.ofList a ≤ String.ofList b)

/-- `pinwords_for_basis` (pin_words.py:390-396) -/
def pinwordsForBasis (B : List NSeq) : List Word := B.flatMap permToPinwords

/-- `is_strict_pinword` (pin_words.py:92-99) -/
def isStrict (w : Word) : Bool :=
  match w with
  | [] => true
  | c :: t => QUADS.contains c && t.all DIRS.contains

/-- the inner `while` of `factor_pinword`: the maximal run of direction letters -/
def spanDirs : Word → Word × Word
  | [] => ([], [])
  | c :: t => if DIRS.contains c then ((c :: (spanDirs t).1), (spanDirs t).2) else ([], c :: t)

theorem spanDirs_length (w : Word) : (spanDirs w).2.length ≤ w.length := by
  induction w with
  | nil => simp [spanDirs]
  | cons c t ih =>
    unfold spanDirs
    split
    · simp; omega
    · simp

/-- `factor_pinword` (pin_words.py:118-135): every factor is one letter followed by the maximal
    run of direction letters -/
def factorPinword : Word → List Word
  | [] => []
  | c :: t => (c :: (spanDirs t).1) :: factorPinword (spanDirs t).2
termination_by w => w.length
decreasing_by have := spanDirs_length t; simp; omega

/-- `sp_to_m` (pin_words.py:137-165) -/
def spToM (w : Word) : List Word :=
  match w with
  | [] => [[]]
  | q :: t =>
    if QUADS.contains q then
      match Generated.c15_spLetterDict.lookup q with
      | none => []          -- KeyError: cannot happen for the generated tables (theorem `spLetterDict_total`)
      | some letters =>
        match t with
        | [] => [letters, letters.reverse]
        | d :: _ =>
          if letters.getD 1 ' ' == d || some (letters.getD 1 ' ') == Generated.c15_opposite.lookup d
          then [letters.reverse ++ t]
          else [letters ++ t]
    else [w]

/-- `m_to_sp` (pin_words.py:167-189); `none` = `KeyError` -/
def mToSp (w : Word) : Option Word :=
  let key := w.take 2
  match Generated.c15_mLetterDict.find? fun kv => kv.2 == key || kv.2.reverse == key with
  | some kv => some (kv.1 :: w.drop 2)
  | none => none

/-! ## 2. `make_nfa_for_pinword` as data, and the model's NFA semantics -/

/-- states are `0 … n-1`, the initial state is `0`, the only final state is `n-1` -/
structure NFA where
  n : Nat
  edges : List (Nat × Char × Nat)
deriving Repr

/-- `new_state` -/
def newState (m : NFA) : NFA := ⟨m.n + 1, m.edges⟩

/-- `add_a_star`: a new state with a self-loop on every letter of `DIRS` -/
def addAStar (m : NFA) : NFA := ⟨m.n + 1, m.edges ++ DIRS.map fun x => (m.n, x, m.n)⟩

def addEdge (m : NFA) (p : Nat) (c : Char) (q : Nat) : NFA := ⟨m.n, m.edges ++ [(p, c, q)]⟩

/-- the `else` branch of `add_sp`: a chain reading `x` from state `pos`; the state reached by
    the last letter is an `A*` state -/
def addChain (m : NFA) (pos : Nat) : Word → NFA
  | [] => m
  | [c] => addEdge (addAStar m) pos c m.n
  | c :: c' :: t => addChain (addEdge (newState m) pos c m.n) m.n (c' :: t)

/-- `add_sp` (pin_words.py:278-307) -/
def addSp (m : NFA) (ui : List Word) : NFA :=
  match ui with
  | [[a1, b1], [a2, b2]] =>
    -- state_a = n-1, state_b = n, state_c = n+1, state_d = n+2 (an `A*` state)
    let a := m.n - 1
    let m1 := addAStar (newState (newState m))
    ⟨m1.n, m1.edges ++ [(a, a1, m.n), (a, a2, m.n + 1), (m.n, b1, m.n + 2), (m.n + 1, b2, m.n + 2)]⟩
  | [x] => addChain m (m.n - 1) x
  | _ => m

/-- the automaton after the initial `add_a_star` -/
def nfaStart : NFA := addAStar ⟨0, []⟩

def nfaOfDecomp (decomp : List (List Word)) : NFA := decomp.foldl addSp nfaStart

/-- `make_nfa_for_pinword` (pin_words.py:263-327) -/
def nfaForPinword (u : Word) : NFA := nfaOfDecomp ((factorPinword u).map spToM)

def dedupNat : List Nat → List Nat
  | [] => []
  | x :: xs => if xs.contains x then dedupNat xs else x :: dedupNat xs

/-- one step of the subset simulation -/
def nfaStep (E : List (Nat × Char × Nat)) (S : List Nat) (c : Char) : List Nat :=
  dedupNat ((E.filter fun e => S.contains e.1 && e.2.1 == c).map (·.2.2))

def nfaRun (E : List (Nat × Char × Nat)) (S : List Nat) (w : Word) : List Nat := w.foldl (nfaStep E) S

/-- the model's NFA semantics: subset simulation from `{0}`, accept iff the last state is reached -/
def nfaAccepts (m : NFA) (w : Word) : Bool := (nfaRun m.edges [0] w).contains (m.n - 1)

/-! ## 3. the automaton for `M` -/

def tblStep (t : List (Nat × List (Char × Nat))) (q : Nat) (c : Char) : Option Nat :=
  (t.lookup q).bind (·.lookup c)

def tblRun (t : List (Nat × List (Char × Nat))) : Option Nat → Word → Option Nat
  | q, [] => q
  | none, _ :: _ => none
  | some q, c :: w => tblRun t (tblStep t q c) w

/-- acceptance by `make_dfa_for_m()` (a letter outside the alphabet rejects) -/
def dfaMAccepts (w : Word) : Bool :=
  match tblRun Generated.c15_dfaM_trans (some Generated.c15_dfaM_init) w with
  | some q => Generated.c15_dfaM_finals.contains q
  | none => false

/-! ## 4. the basis automaton, semantically -/

/-- `make_dfa_for_pinword(u).accepts_input(w)` -/
def pinwordAccepts (u w : Word) : Bool := nfaAccepts (nfaForPinword u) w

/-- union over a list of pin words: accepted by some -/
def wordsAccept (us : List Word) (w : Word) : Bool := us.any fun u => pinwordAccepts u w

/-- `make_dfa_for_basis_from_pinwords(B).accepts_input(w)` / `make_dfa_for_perm` -/
def basisAccepts (B : List NSeq) (w : Word) : Bool := wordsAccept (pinwordsForBasis B) w

/-- acceptance bits of all words `x·v`, `|v| ≤ d`, in preorder of the trie over `DIRS`
    (a word before its extensions, letters in the order of `DIRS`), computed by stepping all
    automata together -/
def trieBits (ms : List NFA) : Nat → List (List Nat) → List Bool
  | 0, Ss => [(ms.zip Ss).any fun mS => mS.2.contains (mS.1.n - 1)]
  | d + 1, Ss =>
    ((ms.zip Ss).any fun mS => mS.2.contains (mS.1.n - 1)) ::
      DIRS.flatMap fun c => trieBits ms d ((ms.zip Ss).map fun mS => nfaStep mS.1.edges mS.2 c)

/-- the words below the prefix `x` in the same order -/
def trieWords : Nat → Word → List Word
  | 0, x => [x]
  | d + 1, x => x :: DIRS.flatMap fun c => trieWords d (x ++ [c])

/-- the words of `L(M)` below `x` (itself in `L(M)`), same order: `L(M)` is prefix closed, so the
    search only extends words of `L(M)` -/
def mTrieWords : Nat → Word → List Word
  | 0, x => [x]
  | d + 1, x => x :: DIRS.flatMap fun c => if dfaMAccepts (x ++ [c]) then mTrieWords d (x ++ [c]) else []

def accBits (us : List Word) (x : Word) (d : Nat) : List Bool :=
  let ms := us.map nfaForPinword
  trieBits ms d (ms.map fun m => nfaRun m.edges [0] x)

/-! ## 5. determinise / minimise / product / finiteness (the model's own constructions) -/

/-- complete DFA over `DIRS` (column `i` = letter `DIRS[i]`), initial state `0` -/
structure DFA where
  trans : Array (Array Nat)
  acc : Array Bool
deriving Repr, Inhabited

def DFA.size (d : DFA) : Nat := d.trans.size

def DFA.step (d : DFA) (q i : Nat) : Nat := (d.trans.getD q #[]).getD i 0

def letterIdx (c : Char) : Option Nat :=
  let i := DIRS.idxOf c
  if i < DIRS.length then some i else none

def DFA.run (d : DFA) : Option Nat → Word → Option Nat
  | q, [] => q
  | none, _ :: _ => none
  | some q, c :: w => DFA.run d ((letterIdx c).map (d.step q)) w

def DFA.accepts (d : DFA) (w : Word) : Bool :=
  match d.run (some 0) w with
  | some q => d.acc.getD q false
  | none => false

/-- exploration state: discovered codes in order, code → position+1 (0 = unseen), rows -/
structure Ex where
  seen : Array Nat
  index : Array Nat
  rows : Array (Array Nat)

/-- look a successor code up, registering it when new; returns its position -/
def Ex.visit (e : Ex) (code : Nat) : Ex × Nat :=
  let k := e.index.getD code 0
  if k != 0 then (e, k - 1)
  else ({ e with seen := e.seen.push code, index := e.index.setIfInBounds code (e.seen.size + 1) }, e.seen.size)

/-- breadth-first exploration of the states reachable from the registered ones; `succ code`
    lists the successor codes for the letters of `DIRS` in order; `fuel` bounds the number of
    processed states (callers pass the size of the code space) -/
def exploreLoop (succ : Nat → List Nat) : Nat → Nat → Ex → Ex
  | 0, _, e => e
  | fuel + 1, i, e =>
    if i < e.seen.size then
      let s := e.seen.getD i 0
      let r := (succ s).foldl (fun (acc : Ex × Array Nat) t =>
        let v := acc.1.visit t
        (v.1, acc.2.push v.2)) (e, #[])
      exploreLoop succ fuel (i + 1) { r.1 with rows := r.1.rows.push r.2 }
    else e

/-- explore from the single start code (position 0); `bound` = size of the code space -/
def explore (succ : Nat → List Nat) (start bound : Nat) : Ex :=
  let e0 : Ex := ⟨#[start], (Array.replicate bound 0).setIfInBounds start 1, #[]⟩
  exploreLoop succ bound 0 e0

/-- subset construction for one NFA, state sets as bit masks -/
def maskStep (E : List (Nat × Char × Nat)) (S : Nat) (c : Char) : Nat :=
  E.foldl (fun acc e => if e.2.1 == c && S.testBit e.1 then acc ||| (1 <<< e.2.2) else acc) 0

def determinize (m : NFA) : DFA :=
  let e := explore (fun S => DIRS.map fun c => maskStep m.edges S c) 1 (2 ^ m.n)
  ⟨e.rows, e.seen.map fun S => S.testBit (m.n - 1)⟩

/-- reachable product, acceptance combined by `op` -/
def product (a b : DFA) (op : Bool → Bool → Bool) : DFA :=
  let nb := b.size
  let e := explore (fun code => (List.range DIRS.length).map fun i =>
      a.step (code / nb) i * nb + b.step (code % nb) i) 0 (a.size * nb)
  ⟨e.rows, e.seen.map fun code => op (a.acc.getD (code / nb) false) (b.acc.getD (code % nb) false)⟩

/-- one round of Moore refinement: new class = first occurrence of the signature
    (own class, classes of the successors) -/
def refineOnce (d : DFA) (cls : Array Nat) : Array Nat × Nat :=
  let r := (List.range d.size).foldl (fun (acc : Array Nat × List (List Nat × Nat)) q =>
      let sig := cls.getD q 0 :: (List.range DIRS.length).map fun i => cls.getD (d.step q i) 0
      match acc.2.lookup sig with
      | some k => (acc.1.push k, acc.2)
      | none => (acc.1.push acc.2.length, (sig, acc.2.length) :: acc.2)) (#[], [])
  (r.1, r.2.length)

def refineLoop (d : DFA) : Nat → Array Nat → Nat → Array Nat
  | 0, cls, _ => cls
  | fuel + 1, cls, k =>
    let r := refineOnce d cls
    if r.2 == k then r.1 else refineLoop d fuel r.1 r.2

/-- Moore minimisation of a DFA all of whose states are reachable, followed by the canonical
    breadth-first numbering (letters in the order of `DIRS`) -/
def minimize (d : DFA) : DFA :=
  let cls0 := d.acc.map fun b => if b then 1 else 0
  let k0 := if d.acc.all id || d.acc.all (!·) then 1 else 2
  let cls := refineLoop d d.size cls0 k0
  -- representative of each class: first state carrying it
  let nCls := cls.foldl (fun m c => max m (c + 1)) 0
  let rep := (List.range d.size).foldl (fun (r : Array Nat) q =>
      let c := cls.getD q 0
      if r.getD c d.size == d.size then r.setIfInBounds c q else r) (Array.replicate nCls d.size)
  let e := explore (fun c => (List.range DIRS.length).map fun i => cls.getD (d.step (rep.getD c 0) i) 0)
      (cls.getD 0 0) nCls
  ⟨e.rows, e.seen.map fun c => d.acc.getD (rep.getD c 0) false⟩

/-- `DFA.empty_language` -/
def emptyDFA : DFA := ⟨#[(Array.replicate DIRS.length 0)], #[false]⟩

def dfaForPinword (u : Word) : DFA := minimize (determinize (nfaForPinword u))

def unionDFA (a b : DFA) : DFA := minimize (product a b (· || ·))

def dfaForWords (us : List Word) : DFA := us.foldl (fun d u => unionDFA d (dfaForPinword u)) emptyDFA

/-- the model's automaton for one permutation (`make_dfa_for_perm`) -/
def dfaForPerm (p : NSeq) : DFA := dfaForWords (permToPinwords p)

/-- `make_dfa_for_basis_from_pinwords` / `_from_db`: union over the basis -/
def dfaForBasis (B : List NSeq) : DFA := B.foldl (fun d p => unionDFA d (dfaForPerm p)) emptyDFA

/-- `make_dfa_for_m()` as a `DFA` over the column order of `DIRS` (states renumbered so that the
    initial state is `0`: the generated table already has initial state `0`) -/
def dfaM : DFA :=
  ⟨(Generated.c15_dfaM_states.map fun q => (DIRS.map fun c =>
      (tblStep Generated.c15_dfaM_trans q c).getD 0).toArray).toArray,
   (Generated.c15_dfaM_states.map fun q => Generated.c15_dfaM_finals.contains q).toArray⟩

/-- states from which an accepting state is reachable: `n` rounds of backward closure -/
def coreachLoop (d : DFA) : Nat → Array Bool → Array Bool
  | 0, co => co
  | k + 1, co =>
    coreachLoop d k ((Array.range d.size).map fun q =>
      co.getD q false || (List.range DIRS.length).any fun i => co.getD (d.step q i) false)

def coreach (d : DFA) : Array Bool := coreachLoop d d.size d.acc

/-- peel off, `n` times, the live states without a live successor; what remains lies on or
    leads to a cycle of live states -/
def peelLoop (d : DFA) : Nat → Array Bool → Array Bool
  | 0, g => g
  | k + 1, g =>
    peelLoop d k ((Array.range d.size).map fun q =>
      g.getD q false && (List.range DIRS.length).any fun i => g.getD (d.step q i) false)

/-- the language of a DFA all of whose states are reachable is finite iff no cycle runs through
    states from which an accepting state is reachable -/
def isFiniteB (d : DFA) : Bool := !(peelLoop d d.size (coreach d)).any id

/-- `make_dfa_for_m().difference(dfa)`: the product automaton for `L(M) \ L(basis)` -/
def diffWithM (basisDfa : DFA) : DFA := product dfaM basisDfa fun x y => x && !y

/-- `has_finite_pinperms` given the basis automaton (pin_words.py:461-467) -/
def finitePinpermsOf (basisDfa : DFA) : Bool := isFiniteB (diffWithM basisDfa)

/-- run-time certificate, part 1: there is a state, every row has one column per letter and stays
    inside the state set -/
def DFA.wfB (d : DFA) : Bool :=
  decide (0 < d.size) &&
    (List.range d.size).all fun q => (List.range DIRS.length).all fun i => decide (d.step q i < d.size)

/-- run-time certificate, part 2: every state other than `0` is the successor of a state with a
    smaller number (true of breadth-first numberings), hence reachable -/
def DFA.reachB (d : DFA) : Bool :=
  (List.range d.size).all fun q => q == 0 ||
    (List.range q).any fun p => (List.range DIRS.length).any fun i => d.step p i == q

/-- the shape under which `isFiniteB` is proved exact (theorem `C15.finite_iff_bounded_cert`);
    the driver checks it for every automaton it tests -/
def DFA.certB (d : DFA) : Bool := d.wfB && d.reachB

/-- `has_finite_pinperms(basis)` -/
def hasFinitePinperms (B : List NSeq) : Bool := finitePinpermsOf (dfaForBasis B)

/-- canonical text of a DFA: `size/acc bits/rows` -/
def DFA.show (d : DFA) : String :=
  s!"{d.size}/" ++ String.ofList (d.acc.toList.map fun b => if b then '1' else '0') ++ "/" ++
    ";".intercalate (d.trans.toList.map fun r => ",".intercalate (r.toList.map toString))

end Model.C15
