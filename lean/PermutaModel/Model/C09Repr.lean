import PermutaModel.Model.C09
/-! # C09 — reading `repr` texts back (`eval(repr(x)) == x`, perm.py:3008, meshpatt.py:811)

Import-free, executable.  `Perm.__repr__` is `f"Perm({tuple.__repr__(self)})"`, `MeshPatt.__repr__` is
`f"MeshPatt({repr(self.pattern)}, {sorted(self.shading)})"`.  Python's `eval` is modelled on exactly the
sub-grammar of expressions these texts use:

```
perm   ::= "Perm(" tuple ")"
tuple  ::= "()" | "(" nat ",)" | "(" nat (", " nat)+ ")"
nat    ::= "0" | [1-9][0-9]*                       -- ASCII digits, maximal run
mesh   ::= "MeshPatt(" perm ", " cells ")"
cells  ::= "[]" | "[" pair (", " pair)* "]"
pair   ::= "(" nat ", " nat ")"
```

Everything else is rejected (`none`), in particular the spellings Python also accepts (other
whitespace, redundant parentheses, trailing commas, `Perm()`, `00`): the parser accepts *only* what
`repr` writes (`C09.parseRepr_only_image`). -/
open Proto (Err)

namespace Model

/-! ## reading -/

/-- a decimal literal as `int.__repr__` writes it: the maximal run of ASCII digits, non-empty, no leading
    zero except for `0` itself; value by Horner's rule (`Nat.ofDigitChars` of core) -/
def readNat (s : List Char) : Option (Nat × List Char) :=
  if s.takeWhile Char.isDigit = [] then none
  else if (s.takeWhile Char.isDigit).head? = some '0' ∧ 1 < (s.takeWhile Char.isDigit).length then none
  else some (Nat.ofDigitChars 10 (s.takeWhile Char.isDigit) 0, s.dropWhile Char.isDigit)

/-- `(", " nat)* ")"`; every round consumes at least three characters, the fuel is the number of
    characters left plus one (`C09.readItems_reprTail`: it is never exhausted on a `repr` text) -/
def readItems : Nat → List Char → Option (List Nat × List Char)
  | 0, _ => none
  | _ + 1, ')' :: rest => some ([], rest)
  | fuel + 1, ',' :: ' ' :: rest =>
    match readNat rest with
    | none => none
    | some (n, rest') =>
      match readItems fuel rest' with
      | none => none
      | some (ns, r) => some (n :: ns, r)
  | _ + 1, _ => none

/-- what follows the first entry of a tuple: `",)"` (one entry) or one or more `", " nat` and `")"`;
    a bare `")"` would be a parenthesised integer, not a tuple -/
def readTupleRest (n : Nat) (r : List Char) : Option (List Nat × List Char) :=
  match r with
  | ',' :: ')' :: r' => some ([n], r')
  | _ =>
    match readItems (r.length + 1) r with
    | none => none
    | some ([], _) => none
    | some (ns, r') => some (n :: ns, r')

/-- a tuple display of naturals as `tuple.__repr__` writes it -/
def readTuple (s : List Char) : Option (List Nat × List Char) :=
  match s with
  | '(' :: ')' :: rest => some ([], rest)
  | '(' :: rest =>
    match readNat rest with
    | none => none
    | some (n, r) => readTupleRest n r
  | _ => none

/-- `Perm(<tuple>)` followed by anything -/
def readPerm (s : List Char) : Option (NSeq × List Char) :=
  match s with
  | 'P' :: 'e' :: 'r' :: 'm' :: '(' :: rest =>
    match readTuple rest with
    | some (ns, ')' :: r) => some (ns, r)
    | _ => none
  | _ => none

/-- `eval(text)` for a text in the `repr` sub-grammar of `Perm`: the whole text must be consumed -/
def parseReprChars (s : List Char) : Option NSeq :=
  match readPerm s with
  | some (ns, []) => some ns
  | _ => none

def parseRepr (s : String) : Option NSeq := parseReprChars s.toList

/-- `(x, y)` -/
def readPair (s : List Char) : Option (Cell × List Char) :=
  match s with
  | '(' :: rest =>
    match readNat rest with
    | some (x, ',' :: ' ' :: r) =>
      match readNat r with
      | some (y, ')' :: r') => some ((x, y), r')
      | _ => none
    | _ => none
  | _ => none

/-- `(", " pair)* "]"` (fuel as in `readItems`) -/
def readPairs : Nat → List Char → Option (List Cell × List Char)
  | 0, _ => none
  | _ + 1, ']' :: rest => some ([], rest)
  | fuel + 1, ',' :: ' ' :: rest =>
    match readPair rest with
    | none => none
    | some (c, rest') =>
      match readPairs fuel rest' with
      | none => none
      | some (cs, r) => some (c :: cs, r)
  | _ + 1, _ => none

/-- a list display of pairs as `list.__repr__` writes it -/
def readCells (s : List Char) : Option (List Cell × List Char) :=
  match s with
  | '[' :: ']' :: rest => some ([], rest)
  | '[' :: rest =>
    match readPair rest with
    | none => none
    | some (c, r) =>
      match readPairs (r.length + 1) r with
      | none => none
      | some (cs, r') => some (c :: cs, r')
  | _ => none

/-- the syntactic reading of `MeshPatt(<perm>, <list of pairs>)`, whole text -/
def parseMeshReprChars (s : List Char) : Option Mesh :=
  match s with
  | 'M' :: 'e' :: 's' :: 'h' :: 'P' :: 'a' :: 't' :: 't' :: '(' :: rest =>
    match readPerm rest with
    | some (p, ',' :: ' ' :: r) =>
      match readCells r with
      | some (cs, [')']) => some ⟨p, cs⟩
      | _ => none
    | _ => none
  | _ => none

/-- `eval(text)` for a text in the `repr` sub-grammar of `MeshPatt`: `none` = not in the sub-grammar,
    otherwise the constructor runs and its `assert` (meshpatt.py:22-30) rejects cells outside the grid -/
def evalMeshReprChars (s : List Char) : Option (Except Err Mesh) :=
  match parseMeshReprChars s with
  | none => none
  | some m =>
    if m.shading.all (fun c => c.1 ≤ m.pattern.length && c.2 ≤ m.pattern.length) then some (.ok m)
    else some (.error .assertion)

def parseMeshRepr (s : String) : Option Mesh := parseMeshReprChars s.toList

def evalMeshRepr (s : String) : Option (Except Err Mesh) := evalMeshReprChars s.toList

/-! ## writing `MeshPatt.__repr__` -/

/-- `(x, y)` -/
def pairReprChars (c : Cell) : List Char :=
  '(' :: natChars c.1 ++ ',' :: ' ' :: natChars c.2 ++ [')']

/-- `list.__repr__` of a list of pairs -/
def cellsReprChars : List Cell → List Char
  | [] => ['[', ']']
  | c :: t => '[' :: pairReprChars c ++ (t.flatMap fun d => ',' :: ' ' :: pairReprChars d) ++ [']']

/-- tuple comparison `(x, y) <= (x', y')` -/
def cellLe' (a b : Cell) : Bool := a.1 < b.1 || (a.1 == b.1 && a.2 ≤ b.2)

def cellInsert (c : Cell) : List Cell → List Cell
  | [] => [c]
  | d :: t => if cellLe' c d then c :: d :: t else d :: cellInsert c t

/-- `sorted(self.shading)` (the frozenset has no repeated cell; any sort gives the same list) -/
def cellSort : List Cell → List Cell
  | [] => []
  | c :: t => cellInsert c (cellSort t)

/-- `MeshPatt.__repr__` (meshpatt.py:811-812) -/
def meshReprChars (m : Mesh) : List Char :=
  "MeshPatt(".toList ++ reprChars m.pattern ++ ',' :: ' ' :: cellsReprChars (cellSort m.shading) ++ [')']

def meshRepr (m : Mesh) : String := String.ofList (meshReprChars m)

end Model
