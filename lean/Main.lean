import PermutaModel.Driver.All

/-- line protocol: `Cxx op arg1 arg2 …` (space separated) → one answer line -/
partial def loop (h : IO.FS.Stream) (out : IO.FS.Stream) : IO Unit := do
  let line ← h.getLine
  if line.isEmpty then return ()
  let toks := (line.trimAscii.toString.splitOn " ").filter (· ≠ "")
  match toks with
  | [] => out.putStrLn "bad-op"
  | [_] => out.putStrLn "bad-op"
  | prop :: op :: args =>
    match Driver.dispatch prop op args with
    | some r => out.putStrLn r
    | none => out.putStrLn "bad-op"
  loop h out

def main : IO Unit := do
  let out ← IO.getStdout
  loop (← IO.getStdin) out
  out.flush
