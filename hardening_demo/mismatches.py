"""usage: mism.py <harnessdir> Cxx [cap] -- impl vs oracle mismatches, single process"""
import sys, os, time, random, importlib
hd, prop = sys.argv[1], sys.argv[2].lower()
cap = int(sys.argv[3]) if len(sys.argv) > 3 else 10**9
sys.path.insert(0, os.path.abspath(hd))
import core
mod = importlib.import_module(prop)
core._PROP[0] = mod.PROP
mod.worker_init()
class Ctx:
    tier = "quick"; seed = 0
    def __init__(s):
        s.rng = random.Random("0-%s" % mod.PROP); s.streams = []; s.notes = []; s.extra = {}; s.t0 = time.time()
        s.pool = type("Pl", (), {"map": staticmethod(lambda f, xs, **kw: map(f, xs))})(); s.semantic_violations = []
    def time_left(s, b): return b
    def compare(s, stream, lines, use_model=True): s.streams.append((stream, list(lines)))
    def compare_precomputed(s, *a): pass
ctx = Ctx(); mod.run(ctx)
bad = []
for stream, lines in ctx.streams:
    if len(lines) > cap: lines = random.Random(1).sample(lines, cap)
    for l in lines:
        tk = l.split(" ")
        io = mod.impl(tk[0], tk[1:]); oo = mod.oracle(tk[0], tk[1:])
        if oo is not None and oo != io: bad.append((stream, l, io, oo))
print(len(bad), "mismatches"); 
for b in bad[:5]: print("  ", b[0], "|", b[1][:160], "|", b[2][:60], "|", b[3][:60])
