#!/usr/bin/env python3
"""take_harness.py <hardener copy> <module...>: copy harness/<module>.py from the copy into /verif but keep
/verif's current PARTIAL list (updated by provers meanwhile); spans found with ast"""
import ast, sys
def span(src, name):
    for n in ast.parse(src).body:
        if isinstance(n, ast.Assign) and any(isinstance(t, ast.Name) and t.id == name for t in n.targets):
            return n.lineno - 1, n.end_lineno
    return None
copy = sys.argv[1]
for mod in sys.argv[2:]:
    src = open('%s/harness/%s.py' % (copy, mod)).read()
    dstp = '/verif/harness/%s.py' % mod
    cur = open(dstp).read()
    for name in ('PARTIAL',):
        a, b = span(cur, name), span(src, name)
        if a and b:
            cl, sl = cur.split('\n'), src.split('\n')
            if cl[a[0]:a[1]] != sl[b[0]:b[1]]:
                sl[b[0]:b[1]] = cl[a[0]:a[1]]
                src = '\n'.join(sl)
                print(mod, 'kept /verif', name)
    open(dstp, 'w').write(src)
    print('took', mod)
