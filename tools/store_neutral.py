#!/usr/bin/env python3
"""usage: store_neutral.py <validate_neutral log> -- copy confirmed behaviour-preserving changes into
/verif/neutral/<Cxx>-<k>/ with the outcome of the check (expected: quiet, rc=0)"""
import json, os, re, shutil, sys
log = open(sys.argv[1]).read()
for b in re.split(r'(?=^NRESULT )', log, flags=re.M):
    m = re.match(r"NRESULT (\S+) prop=(\S+) equiv_rc=(\d+) tests='([^']*)' check_rc=(\d+)", b)
    if not m:
        continue
    sd, c, eq, tests, rc = m.group(1), m.group(2), int(m.group(3)), m.group(4), int(m.group(5))
    fi = re.search(r'failing input: (.*)', b) or re.search(r'correspondence broken at: (.*)', b) or re.search(r'broken obligation: (.*)', b)
    confirmed = eq == 0 and ('passed' in tests and 'failed' not in tests)
    k = int(sd[-1]) + (4 if os.environ.get('NEUTRAL_ROUND') == '2' and c in ('C07',) else 0)
    dst = '/verif/neutral/%s-%s' % (c, k)
    print(dst, 'confirmed' if confirmed else 'NOT-CONFIRMED eq=%d tests=%s' % (eq, tests), 'quiet' if rc == 0 else 'ALARM rc=%d' % rc, fi.group(1)[:160] if fi else None)
    if not confirmed:
        continue
    if not os.path.exists(os.path.join(sd, 'patch.diff')):
        print('  source directory gone, skipped')
        continue
    os.makedirs(dst, exist_ok=True)
    for f in ('patch.diff', 'equiv.py'):
        shutil.copy(os.path.join(sd, f), dst)
    meta = json.load(open(os.path.join(sd, 'meta.json')))
    meta.update({"property": c, "confirmed": {"suite_with_patch": tests, "equiv_exit_with_patch": eq,
                 "how": "tools/validate_neutral.sh (scratch git worktree of /repo + copy of /verif; PERMUTA_REPO points the check at the patched tree)"},
                 "check": {"command": "./check %s --tier quick" % c, "quiet": rc == 0, "rc": rc,
                           "reported": fi.group(1) if fi else None, "note": None}})
    json.dump(meta, open(os.path.join(dst, 'meta.json'), 'w'), indent=1)
