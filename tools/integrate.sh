#!/bin/bash
# usage: tools/integrate.sh <wk id>   -- copy a builder's new files into /verif and list shared-file diffs
W=/tmp/wk_$1
cd $W || exit 1
echo "== new files"
for f in $(find lean/PermutaModel harness tools -type f \( -name '*.lean' -o -name '*.py' -o -name '*.diff' -o -name '*.patch' -o -name '*.json' \) | grep -v '\.lake' | grep -v __pycache__); do
  if [ ! -e /verif/$f ]; then mkdir -p /verif/$(dirname $f); cp $f /verif/$f; echo "  + $f"; fi
done
echo "== changed shared files (review by hand)"
for f in $(find lean/PermutaModel harness tools KNOWN_FINDINGS.json lean/lakefile.toml lean/Main.lean -type f 2>/dev/null | grep -v '\.lake' | grep -v __pycache__ | grep -v Generated); do
  if [ -e /verif/$f ] && ! cmp -s $f /verif/$f; then echo "  ~ $f"; fi
done
ls $W/*.diff $W/*.patch $W/fixes 2>/dev/null
