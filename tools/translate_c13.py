"""C13 / C19 extraction items (pure `ast`, nothing is executed).

Emitted (namespace Generated):
  polyTypeCount, polyTypeNames        the constant of `len({...}) == 10` in PolyPerms.is_polynomial, the PermType enum
  insEncAllProperties, insEncRotate   `_ALL_PROPERTIES` and the rotation used by is_insertion_encodable_maximum
  coreStrategies                      class name and sorted `patterns_needed` of each core strategy, in list order
  fastStrategies, longStrategies, allStrategies, findStrategiesLong, findStrategiesQuick
"""
import ast
import os

ITEMS = []


# ----------------------------------------------------------------------------- helpers
def _parse(repo, rel):
    path = os.path.join(repo, rel)
    with open(path) as f:
        return ast.parse(f.read(), filename=path)


def _find_class(tree, name):
    for node in ast.walk(tree):
        if isinstance(node, ast.ClassDef) and node.name == name:
            return node
    raise LookupError("class %s" % name)


def _find_func(node, name):
    for n in ast.walk(node):
        if isinstance(n, (ast.FunctionDef, ast.AsyncFunctionDef)) and n.name == name:
            return n
    raise LookupError("function %s" % name)


def _lean_seq(t):
    return "[" + ", ".join(str(int(x)) for x in t) + "]"


# ----------------------------------------------------------------------------- C13
def c13_constants(repo):
    """the constant `10` of PolyPerms.is_polynomial, `_ALL_PROPERTIES`, and the rotation amount used by
    is_insertion_encodable_maximum (`perm.rotate()` -> default of Perm.rotate's `times`)"""
    out = []
    rel = "permuta/permutils/polynomial.py"
    tree = _parse(repo, rel)
    fn = _find_func(_find_class(tree, "PolyPerms"), "is_polynomial")
    consts = [(n.comparators[0].value, n.lineno) for n in ast.walk(fn)
              if isinstance(n, ast.Compare) and len(n.ops) == 1 and isinstance(n.ops[0], ast.Eq)
              and isinstance(n.left, ast.Call) and getattr(n.left.func, "id", None) == "len"
              and isinstance(n.comparators[0], ast.Constant) and isinstance(n.comparators[0].value, int)]
    if len(consts) != 1:
        raise LookupError("len(...) == <int> in is_polynomial")
    out.append("/-- %s:%d  `len({...}) == %d` -/" % (rel, consts[0][1], consts[0][0]))
    out.append("def polyTypeCount : Nat := %d" % consts[0][0])
    # number of members of the PermType enum (the theorems need both to agree)
    enum = _find_class(tree, "PermType")
    members = [(s.targets[0].id, s.value.value) for s in enum.body
               if isinstance(s, ast.Assign) and isinstance(s.value, ast.Constant) and isinstance(s.value.value, int)]
    out.append("/-- %s:%d  members of `PermType` (name, value) -/" % (rel, enum.lineno))
    out.append("def polyTypeNames : List (String × Nat) := [%s]" % ", ".join('("%s", %d)' % m for m in members))
    rel = "permuta/permutils/insertion_encodable.py"
    tree = _parse(repo, rel)
    cls = _find_class(tree, "InsertionEncodablePerms")
    allp = None
    for s in cls.body:
        if isinstance(s, ast.AnnAssign) and getattr(s.target, "id", None) == "_ALL_PROPERTIES":
            allp = (s.value.value, s.lineno)
        if isinstance(s, ast.Assign) and getattr(s.targets[0], "id", None) == "_ALL_PROPERTIES":
            allp = (s.value.value, s.lineno)
    if allp is None or not isinstance(allp[0], int):
        raise LookupError("_ALL_PROPERTIES")
    out.append("/-- %s:%d -/" % (rel, allp[1]))
    out.append("def insEncAllProperties : Nat := %d" % allp[0])
    fn = _find_func(cls, "is_insertion_encodable_maximum")
    calls = [n for n in ast.walk(fn) if isinstance(n, ast.Call) and isinstance(n.func, ast.Attribute)
             and n.func.attr == "rotate"]
    if len(calls) != 1:
        raise LookupError("perm.rotate(...) in is_insertion_encodable_maximum")
    call = calls[0]
    if call.args:
        amount = ast.literal_eval(call.args[0])
        where = "%s:%d explicit argument" % (rel, call.lineno)
    elif call.keywords:
        amount = ast.literal_eval(call.keywords[0].value)
        where = "%s:%d keyword argument" % (rel, call.lineno)
    else:
        prel = "permuta/patterns/perm.py"
        rot = _find_func(_find_class(_parse(repo, prel), "Perm"), "rotate")
        if not rot.args.defaults:
            raise LookupError("default of Perm.rotate(times)")
        amount = ast.literal_eval(rot.args.defaults[-1])
        where = "%s:%d `perm.rotate()` with the default of %s:%d" % (rel, call.lineno, prel, rot.lineno)
    out.append("/-- %s -/" % where)
    out.append("def insEncRotate : Int := %d" % amount)
    # rightmost must not rotate at all
    fn = _find_func(cls, "is_insertion_encodable_rightmost")
    if any(isinstance(n, ast.Attribute) and n.attr == "rotate" for n in ast.walk(fn)):
        raise LookupError("is_insertion_encodable_rightmost without rotation")
    return out


ITEMS.append(c13_constants)


# ----------------------------------------------------------------------------- C19
def _module_perm_constants(tree):
    """module-level `NAME: Perm = Perm((...))` / `NAME = Perm((...))` constants"""
    consts = {}
    for s in tree.body:
        tgt, val = None, None
        if isinstance(s, ast.AnnAssign) and isinstance(s.target, ast.Name):
            tgt, val = s.target.id, s.value
        elif isinstance(s, ast.Assign) and isinstance(s.targets[0], ast.Name):
            tgt, val = s.targets[0].id, s.value
        if tgt and isinstance(val, ast.Call) and getattr(val.func, "id", None) == "Perm" and val.args:
            try:
                consts[tgt] = tuple(ast.literal_eval(val.args[0]))
            except Exception:
                pass
    return consts


def _perm_expr(node, consts):
    if isinstance(node, ast.Name):
        return consts[node.id]
    if isinstance(node, ast.Call) and getattr(node.func, "id", None) == "Perm":
        return tuple(ast.literal_eval(node.args[0]))
    raise LookupError("perm expression")


def c19_tables(repo):
    """`patterns_needed` and class names of the core strategies (in the order of `core_strategies`), and the
    three strategy lists of enumeration_strategies/__init__.py"""
    out = []
    rel = "permuta/enumeration_strategies/core_strategies.py"
    tree = _parse(repo, rel)
    consts = _module_perm_constants(tree)
    order = None
    for s in tree.body:
        tgt = None
        if isinstance(s, ast.AnnAssign) and isinstance(s.target, ast.Name):
            tgt, val = s.target.id, s.value
        elif isinstance(s, ast.Assign) and isinstance(s.targets[0], ast.Name):
            tgt, val = s.targets[0].id, s.value
        if tgt == "core_strategies":
            order = [e.id for e in val.elts]
    if order is None:
        raise LookupError("core_strategies list")
    rows = []
    for name in order:
        cls = _find_class(tree, name)
        needed = None
        for s in cls.body:
            tgt, val = None, None
            if isinstance(s, ast.AnnAssign) and isinstance(s.target, ast.Name):
                tgt, val = s.target.id, s.value
            elif isinstance(s, ast.Assign) and isinstance(s.targets[0], ast.Name):
                tgt, val = s.targets[0].id, s.value
            if tgt == "patterns_needed":
                if not (isinstance(val, ast.Call) and getattr(val.func, "id", None) == "frozenset"):
                    raise LookupError("patterns_needed of %s is not frozenset([...])" % name)
                needed = sorted(_perm_expr(e, consts) for e in val.args[0].elts)
                line = s.lineno
        if needed is None:
            raise LookupError("patterns_needed of %s" % name)
        rows.append((name, needed, line))
    out.append("/-- %s: class name and sorted `patterns_needed` of each core strategy, in the order of `core_strategies` -/" % rel)
    out.append("def coreStrategies : List (String × List (List Nat)) := [")
    out.append(",\n".join('  ("%s", [%s])' % (n, ", ".join(_lean_seq(p) for p in ps)) for n, ps, _ln in rows))
    out.append("]")
    # the strategy lists
    rel = "permuta/enumeration_strategies/__init__.py"
    tree = _parse(repo, rel)
    lists = {}

    def ev(node):
        if isinstance(node, ast.List):
            return [e.id for e in node.elts]
        if isinstance(node, ast.Name):
            if node.id == "core_strategies":
                return list(order)
            return list(lists[node.id])
        if isinstance(node, ast.BinOp) and isinstance(node.op, ast.Add):
            return ev(node.left) + ev(node.right)
        raise LookupError("strategy list expression")

    for s in tree.body:
        tgt, val = None, None
        if isinstance(s, ast.AnnAssign) and isinstance(s.target, ast.Name):
            tgt, val = s.target.id, s.value
        elif isinstance(s, ast.Assign) and isinstance(s.targets[0], ast.Name):
            tgt, val = s.targets[0].id, s.value
        if tgt in ("fast_enumeration_strategies", "long_enumeration_strategies", "all_enumeration_strategies"):
            lists[tgt] = ev(val)
        # fast_enumeration_strategies.extend(core_strategies)
        if isinstance(s, ast.Expr) and isinstance(s.value, ast.Call) and isinstance(s.value.func, ast.Attribute) \
                and s.value.func.attr == "extend" and isinstance(s.value.func.value, ast.Name):
            lists[s.value.func.value.id] = lists[s.value.func.value.id] + ev(s.value.args[0])
    for key, lean in (("fast_enumeration_strategies", "fastStrategies"),
                      ("long_enumeration_strategies", "longStrategies"),
                      ("all_enumeration_strategies", "allStrategies")):
        if key not in lists:
            raise LookupError(key)
        out.append("/-- %s: `%s` -/" % (rel, key))
        out.append("def %s : List String := [%s]" % (lean, ", ".join('"%s"' % n for n in lists[key])))
    # which list find_strategies uses for long_runnning True / False
    fn = _find_func(tree, "find_strategies")
    branch = None
    for n in ast.walk(fn):
        if isinstance(n, ast.If) and isinstance(n.test, ast.Name) and n.test.id == "long_runnning":
            def tgt_of(body):
                for b in body:
                    if isinstance(b, ast.AnnAssign):
                        return b.value.id
                    if isinstance(b, ast.Assign):
                        return b.value.id
                raise LookupError("assignment in find_strategies branch")
            branch = (tgt_of(n.body), tgt_of(n.orelse))
    if branch is None:
        raise LookupError("if long_runnning in find_strategies")
    names = {"all_enumeration_strategies": "allStrategies", "fast_enumeration_strategies": "fastStrategies",
             "long_enumeration_strategies": "longStrategies"}
    out.append("/-- %s:%d  list used by `find_strategies` when `long_runnning` is True / False -/" % (rel, fn.lineno))
    out.append("def findStrategiesLong : List String := %s" % names[branch[0]])
    out.append("def findStrategiesQuick : List String := %s" % names[branch[1]])
    return out


ITEMS.append(c19_tables)
