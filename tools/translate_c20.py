"""C20 extraction items (imported by translate_items.py): open() modes, except clauses, read()/readline(), the shape
validation of from_json, the existence check of store_dfa_for_perm, the lru_cache on load_dfa_for_perm.
Pure `ast` walking; nothing from the repository is executed."""
import ast
import os

# ----------------------------------------------------------------------------- helpers
def _parse(repo, rel):
    path = os.path.join(repo, rel)
    with open(path) as f:
        return ast.parse(f.read(), filename=path)


def _find_func(tree, name):
    for node in ast.walk(tree):
        if isinstance(node, (ast.FunctionDef, ast.AsyncFunctionDef)) and node.name == name:
            return node
    raise LookupError("function %s not found" % name)


def _lean_chars(s):
    """Lean `List Char` literal for an ASCII string"""
    def ch(c):
        if c == "'":
            return "'\\''"
        if c == "\\":
            return "'\\\\'"
        if not (32 <= ord(c) < 127):
            raise ValueError("non-printable character in extracted literal")
        return "'%s'" % c
    return "[" + ", ".join(ch(c) for c in s) + "]"


def _open_calls(func):
    """(lineno, mode) of every `open(x, "<mode>")` call inside func (mode defaults to 'r')"""
    res = []
    for node in ast.walk(func):
        if isinstance(node, ast.Call) and isinstance(node.func, ast.Name) and node.func.id == "open":
            mode = "r"
            if len(node.args) >= 2:
                m = node.args[1]
                if not (isinstance(m, ast.Constant) and isinstance(m.value, str)):
                    raise LookupError("open() mode is not a string literal")
                mode = m.value
            for kw in node.keywords:
                if kw.arg == "mode":
                    if not (isinstance(kw.value, ast.Constant) and isinstance(kw.value.value, str)):
                        raise LookupError("open() mode is not a string literal")
                    mode = kw.value.value
            res.append((node.lineno, mode))
    return res


def _handler_names(func):
    """class names of the (single) try/except in func"""
    tries = [n for n in ast.walk(func) if isinstance(n, ast.Try)]
    if len(tries) != 1 or len(tries[0].handlers) != 1:
        raise LookupError("expected exactly one try with one handler")
    t = tries[0].handlers[0].type
    if t is None:
        return ["BaseException"]
    elts = t.elts if isinstance(t, ast.Tuple) else [t]
    names = []
    for e in elts:
        if isinstance(e, ast.Name):
            names.append(e.id)
        elif isinstance(e, ast.Attribute):
            names.append(e.attr)
        else:
            raise LookupError("unrecognised except clause")
    return names


# ----------------------------------------------------------------------------- C20
def c20_io_facts(repo):
    """open() modes / except clauses / readline / existence check / lru_cache of the persistence code
    (permuta/bisc/bisc.py, permuta/permutils/pin_words.py)"""
    bisc = _parse(repo, "permuta/bisc/bisc.py")
    pin = _parse(repo, "permuta/permutils/pin_words.py")
    out = []
    # write_json_to_file
    wj = _find_func(bisc, "write_json_to_file")
    opens = _open_calls(wj)
    if len(opens) != 1:
        raise LookupError("write_json_to_file: expected one open()")
    out.append("/-- mode of `open` in `write_json_to_file` (permuta/bisc/bisc.py:%d) -/" % opens[0][0])
    out.append("def c20WriteMode : List Char := %s" % _lean_chars(opens[0][1]))
    wc = _handler_names(wj)
    out.append("/-- `except` clause of `write_json_to_file` -/")
    out.append("def c20WriteCaught : List (List Char) := [%s]" % ", ".join(_lean_chars(n) for n in wc))
    # read_bisc_file
    rb = _find_func(bisc, "read_bisc_file")
    opens = _open_calls(rb)
    if len(opens) != 1:
        raise LookupError("read_bisc_file: expected one open()")
    out.append("/-- mode of `open` in `read_bisc_file` (permuta/bisc/bisc.py:%d) -/" % opens[0][0])
    out.append("def c20ReadMode : List Char := %s" % _lean_chars(opens[0][1]))
    rc = _handler_names(rb)
    out.append("/-- `except` clause of `read_bisc_file` -/")
    out.append("def c20ReadCaught : List (List Char) := [%s]" % ", ".join(_lean_chars(n) for n in rc))
    meths = [n.func.attr for n in ast.walk(rb)
             if isinstance(n, ast.Call) and isinstance(n.func, ast.Attribute)
             and isinstance(n.func.value, ast.Name) and n.func.value.id == "f"]
    if meths == ["readline"]:
        one = "true"
    elif meths == ["read"]:
        one = "false"
    else:
        raise LookupError("read_bisc_file: expected f.readline() or f.read(), found %r" % (meths,))
    out.append("/-- `from_json(f.readline())`: only the first line of the file is parsed -/")
    out.append("def c20ReadOneLine : Bool := %s" % one)
    # from_json: shape validation before the dictionary comprehension
    fj = _find_func(bisc, "from_json")
    raises = [n for n in ast.walk(fj) if isinstance(n, ast.Raise) and n.exc is not None]
    if not raises:
        validates = False
    else:
        if len(raises) != 1:
            raise LookupError("from_json: expected at most one raise")
        exc = raises[0].exc
        f = exc.func if isinstance(exc, ast.Call) else exc
        if not (isinstance(f, ast.Name) and f.id == "ValueError"):
            raise LookupError("from_json: raises something other than ValueError")
        guard = next((n for n in ast.walk(fj) if isinstance(n, ast.If) and raises[0] in n.body), None)
        if guard is None or not (isinstance(guard.test, ast.UnaryOp) and isinstance(guard.test.op, ast.Not)):
            raise LookupError("from_json: the raise is not guarded by `if not (...)`")
        inst = [n.args[1].id for n in ast.walk(guard.test)
                if isinstance(n, ast.Call) and isinstance(n.func, ast.Name) and n.func.id == "isinstance"
                and len(n.args) == 2 and isinstance(n.args[1], ast.Name)]
        exact_int = any(isinstance(n, ast.Compare) and len(n.ops) == 1 and isinstance(n.ops[0], ast.Is)
                        and isinstance(n.left, ast.Call) and isinstance(n.left.func, ast.Name) and n.left.func.id == "type"
                        and isinstance(n.comparators[0], ast.Name) and n.comparators[0].id == "int"
                        for n in ast.walk(guard.test))
        alls = sum(1 for n in ast.walk(guard.test)
                   if isinstance(n, ast.Call) and isinstance(n.func, ast.Name) and n.func.id == "all")
        if sorted(inst) != ["dict", "list", "list"] or not exact_int or alls != 3:
            raise LookupError("from_json: validation is not dict / list / list / `type(val) is int` (found %r)" % (inst,))
        if guard.lineno > max(n.lineno for n in ast.walk(fj) if isinstance(n, ast.Return)):
            raise LookupError("from_json: validation after the return")
        validates = True
    out.append("/-- `from_json` raises ValueError unless the value is a dict of lists of lists of `int` (bisc.py:%d) -/" % fj.lineno)
    out.append("def c20FromJsonValidates : Bool := %s" % ("true" if validates else "false"))
    # store_dfa_for_perm
    st = _find_func(pin, "store_dfa_for_perm")
    opens = _open_calls(st)
    if len(opens) != 1:
        raise LookupError("store_dfa_for_perm: expected one open()")
    open_line = opens[0][0]
    once = False
    for node in ast.walk(st):
        if isinstance(node, ast.If) and node.lineno < open_line:
            t = node.test
            if (isinstance(t, ast.Call) and isinstance(t.func, ast.Attribute) and t.func.attr in ("is_file", "exists")
                    and len(node.body) == 1 and isinstance(node.body[0], ast.Return) and not node.orelse):
                once = True
    out.append("/-- mode of `open` in `store_dfa_for_perm` (permuta/permutils/pin_words.py:%d) -/" % open_line)
    out.append("def c20StoreMode : List Char := %s" % _lean_chars(opens[0][1]))
    out.append("/-- `if path.is_file(): return` precedes that `open` -/")
    out.append("def c20StoreWriteOnce : Bool := %s" % ("true" if once else "false"))
    # load_dfa_for_perm
    ld = _find_func(pin, "load_dfa_for_perm")
    memo = False
    for d in ld.decorator_list:
        f = d.func if isinstance(d, ast.Call) else d
        nm = f.id if isinstance(f, ast.Name) else (f.attr if isinstance(f, ast.Attribute) else "")
        if nm in ("lru_cache", "cache"):
            memo = True
    out.append("/-- `load_dfa_for_perm` is memoised (`lru_cache`, pin_words.py:%d) -/" % ld.lineno)
    out.append("def c20LoadMemo : Bool := %s" % ("true" if memo else "false"))
    return out



ITEMS = [c20_io_facts]
