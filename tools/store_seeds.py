#!/usr/bin/env python3
"""usage: store_seeds.py <validate_seed log> -- copy confirmed seeds into /verif/seeded/<Cxx>-<k>/ with the outcome"""
import json, os, re, shutil, sys
log = open(sys.argv[1]).read()
for b in re.split(r'(?=^RESULT )', log, flags=re.M):
    m = re.match(r"RESULT (\S+) prop=(\S+) demo_with_patch_rc=(\d+) demo_without_rc=(\d+) tests='([^']*)' check_rc=(\d+)", b)
    if not m:
        continue
    sd, c, dw, do, tests, rc = m.group(1), m.group(2), int(m.group(3)), int(m.group(4)), m.group(5), int(m.group(6))
    fi = re.search(r'failing input: (.*)', b) or re.search(r'correspondence broken at: (.*)', b) or re.search(r'broken obligation: (.*)', b)
    confirmed = dw != 0 and do == 0 and ('passed' in tests and 'failed' not in tests)
    k = int(sd[-1]) + (3 if 'seed2_' in sd else 0) + (6 if "seed3_" in sd else 0) + (9 if "seed4_" in sd else 0)
    dst = '/verif/seeded/%s-%s' % (c, k)
    print(dst, 'confirmed' if confirmed else 'NOT-CONFIRMED', 'caught' if rc == 1 else 'MISSED rc=%d' % rc, fi.group(1)[:100] if fi else None)
    if not confirmed:
        continue
    os.makedirs(dst, exist_ok=True)
    for f in ('patch.diff', 'demo.py'):
        shutil.copy(os.path.join(sd, f), dst)
    meta = json.load(open(os.path.join(sd, 'meta.json')))
    meta.update({"property": c, "confirmed": {"suite_with_patch": tests, "demo_exit_with_patch": dw, "demo_exit_without_patch": do,
                 "how": "tools/validate_seed.sh (scratch git worktree of /repo + copy of /verif; PERMUTA_REPO points the check at the patched tree)"},
                 "check": {"command": "./check %s --tier quick" % c, "caught": rc == 1,
                           "reported_failing_input": fi.group(1) if fi else None, "note": None}})
    json.dump(meta, open(os.path.join(dst, 'meta.json'), 'w'), indent=1)
