"""astnorm: behaviour-preserving normalisation of small Python function bodies before the translator classifies
their shape.  It makes the translator insensitive to three families of harmless rewrites:

  * a sub-expression moved into a *pure single-return* private helper (module-level function, method of the class
    or staticmethod), e.g. `_ordering_key(self) < _ordering_key(other)`: the call is replaced by the helper's
    returned expression with the arguments substituted (only helpers whose body is exactly `return <expr>`; a helper
    with a cache, a branch or an assignment is NOT inlined - the shape stays unrecognised and the obligation breaks);
  * straight-line local bindings before the first branch (`n, t = len(other), tuple(other)`): substituted into the
    later statements when every bound name is assigned exactly once in the function and the bound expression only
    mentions parameters (pure readers: len, tuple, sorted, attribute access);
  * the docstring.

Nothing here is trusted for soundness: a wrong normalisation gives a table the model is built from, and the
correspondence run compares that model with the implementation."""
import ast
import copy

_PURE_CALLS = {"len", "tuple", "sorted", "frozenset", "set", "list", "isinstance", "hash", "type"}


class _Subst(ast.NodeTransformer):
    def __init__(self, env):
        self.env = env

    def visit_Name(self, node):
        if isinstance(node.ctx, ast.Load) and node.id in self.env:
            return copy.deepcopy(self.env[node.id])
        return node


def subst(node, env):
    return ast.fix_missing_locations(_Subst(env).visit(copy.deepcopy(node)))


def strip_doc(body):
    body = list(body)
    if body and isinstance(body[0], ast.Expr) and isinstance(getattr(body[0], "value", None), ast.Constant) \
            and isinstance(body[0].value.value, str):
        body = body[1:]
    return body


def _single_return(fn):
    body = strip_doc(fn.body)
    if len(body) == 1 and isinstance(body[0], ast.Return) and body[0].value is not None:
        return body[0].value
    return None


def _is_pure_reader(expr, params):
    """only parameters, constants, attribute reads, tuples and calls of pure builtins"""
    for n in ast.walk(expr):
        if isinstance(n, ast.Name):
            if n.id not in params and n.id not in _PURE_CALLS:
                return False
        elif isinstance(n, ast.Call):
            if not (isinstance(n.func, ast.Name) and n.func.id in _PURE_CALLS):
                return False
        elif not isinstance(n, (ast.Attribute, ast.Tuple, ast.Constant, ast.Load, ast.expr_context, ast.Subscript,
                                ast.Compare, ast.cmpop, ast.BoolOp, ast.boolop, ast.UnaryOp, ast.unaryop)):
            return False
    return True


class Inliner(ast.NodeTransformer):
    """replace calls of pure single-return helpers by their returned expression"""

    def __init__(self, module_tree, class_node):
        self.mod = {n.name: n for n in module_tree.body if isinstance(n, ast.FunctionDef)}
        self.meth = {n.name: n for n in class_node.body if isinstance(n, ast.FunctionDef)} if class_node else {}
        self.cls = class_node.name if class_node else None
        self.changed = False

    def _helper(self, call):
        f = call.func
        if call.keywords or any(isinstance(a, ast.Starred) for a in call.args):
            return None
        if isinstance(f, ast.Name) and f.id in self.mod and f.id.startswith("_"):
            fn, args = self.mod[f.id], list(call.args)
        elif isinstance(f, ast.Attribute) and f.attr in self.meth and f.attr.startswith("_") and not f.attr.startswith("__"):
            fn = self.meth[f.attr]
            decos = [ast.unparse(d) for d in fn.decorator_list]
            if isinstance(f.value, ast.Name) and f.value.id in ("self", "other") and not decos:
                args = [f.value] + list(call.args)
            elif isinstance(f.value, ast.Name) and f.value.id in ("self", "other", self.cls) and decos == ["staticmethod"]:
                args = list(call.args)
            elif isinstance(f.value, ast.Name) and f.value.id == self.cls and not decos:
                args = list(call.args)
            else:
                return None
        else:
            return None
        a = fn.args
        if a.vararg or a.kwarg or a.kwonlyargs or a.defaults or a.posonlyargs or len(a.args) != len(args):
            return None
        ret = _single_return(fn)
        if ret is None:
            return None
        params = [p.arg for p in a.args]
        if not _is_pure_reader(ret, set(params)):
            return None
        return subst(ret, dict(zip(params, args)))

    def visit_Call(self, node):
        self.generic_visit(node)
        r = self._helper(node)
        if r is not None:
            self.changed = True
            return r
        return node


def _assigned_names(fn):
    names = []
    for n in ast.walk(fn):
        if isinstance(n, ast.Name) and isinstance(n.ctx, ast.Store):
            names.append(n.id)
        elif isinstance(n, (ast.AugAssign, ast.NamedExpr, ast.For, ast.While, ast.With, ast.Try, ast.Global, ast.Nonlocal)):
            names.append("<complex>")
    return names


def normalise(fn, module_tree, class_node):
    """a copy of `fn` with helper calls inlined (to depth 3) and leading straight-line bindings substituted"""
    fn = copy.deepcopy(fn)
    fn.body = strip_doc(fn.body)
    for _ in range(3):
        inl = Inliner(module_tree, class_node)
        fn = inl.visit(fn)
        if not inl.changed:
            break
    params = {a.arg for a in fn.args.args}
    assigned = _assigned_names(fn)
    env, body = {}, list(fn.body)
    while body and isinstance(body[0], ast.Assign) and len(body[0].targets) == 1 and "<complex>" not in assigned:
        t, v = body[0].targets[0], subst(body[0].value, env)
        if isinstance(t, ast.Name):
            pairs = [(t.id, v)]
        elif isinstance(t, ast.Tuple) and isinstance(v, ast.Tuple) and len(t.elts) == len(v.elts) \
                and all(isinstance(e, ast.Name) for e in t.elts):
            pairs = [(e.id, x) for e, x in zip(t.elts, v.elts)]
        else:
            break
        if any(assigned.count(nm) != 1 or nm in params for nm, _ in pairs) or not all(_is_pure_reader(x, params) for _, x in pairs):
            break
        env.update(pairs)
        body = body[1:]
    fn.body = [subst(s, env) for s in body] if env else body
    return ast.fix_missing_locations(fn)
