"""Translator items for C15/C16 (permuta/permutils/pin_words.py): DIRS/QUADS, the DFA for M, the letter
dictionaries of sp_to_m / m_to_sp, the alternation / wedge pattern tables.  Pure `ast`."""
import ast
import os


# ----------------------------------------------------------------------------- C15 / C16 (pin_words.py)
def _c15_tree(repo):
    path = os.path.join(repo, "permuta", "permutils", "pin_words.py")
    return ast.parse(open(path).read()), "permuta/permutils/pin_words.py"


def _c15_func(tree, name):
    for node in ast.walk(tree):
        if isinstance(node, ast.FunctionDef) and node.name == name:
            return node
    raise KeyError("function %s not found" % name)


def _c15_lean_char(c):
    assert isinstance(c, str) and len(c) == 1 and c.isalnum(), c
    return "'%s'" % c


def _c15_lean_str(s):
    assert isinstance(s, str) and all(ch.isalnum() for ch in s), s
    return '"%s"' % s


def _c15_module_str(tree, name):
    for node in tree.body:
        if isinstance(node, ast.Assign) and len(node.targets) == 1 and isinstance(node.targets[0], ast.Name) \
                and node.targets[0].id == name:
            return ast.literal_eval(node.value), node.lineno
    raise KeyError(name)


def c15_dirs_quads(repo):
    """module constants DIRS / QUADS"""
    tree, rel = _c15_tree(repo)
    out = []
    for nm in ("DIRS", "QUADS"):
        val, line = _c15_module_str(tree, nm)
        out.append("/-- `%s` (%s:%d) -/" % (nm, rel, line))
        out.append("def c15_%s : List Char := [%s]" % (nm, ", ".join(_c15_lean_char(c) for c in val)))
    return out


def c15_dfa_m(repo):
    """the literal DFA of make_dfa_for_m: states, transitions, initial state, final states"""
    tree, rel = _c15_tree(repo)
    fn = _c15_func(tree, "make_dfa_for_m")
    call = None
    for node in ast.walk(fn):
        if isinstance(node, ast.Call) and isinstance(node.func, ast.Name) and node.func.id == "DFA":
            call = node
    if call is None:
        raise KeyError("DFA(...) call in make_dfa_for_m")
    kw = {k.arg: k.value for k in call.keywords}

    def setlit(node):
        # frozenset({..}) or {..}; frozenset(DIRS) is resolved through the module constant
        if isinstance(node, ast.Call) and isinstance(node.func, ast.Name) and node.func.id == "frozenset":
            node = node.args[0]
        if isinstance(node, ast.Name):
            return list(_c15_module_str(tree, node.id)[0])
        return list(ast.literal_eval(node))

    states = sorted(setlit(kw["states"]))
    finals = sorted(setlit(kw["final_states"]))
    symbols = setlit(kw["input_symbols"])
    init = ast.literal_eval(kw["initial_state"])
    trans = ast.literal_eval(kw["transitions"])
    out = ["/-- `make_dfa_for_m` (%s:%d): transition table, insertion order of the source -/" % (rel, fn.lineno)]
    rows = []
    for q, row in trans.items():
        rows.append("(%d, [%s])" % (q, ", ".join("(%s, %d)" % (_c15_lean_char(c), t) for c, t in row.items())))
    out.append("def c15_dfaM_trans : List (Nat × List (Char × Nat)) :=\n  [%s]" % ",\n   ".join(rows))
    out.append("def c15_dfaM_states : List Nat := [%s]" % ", ".join(str(s) for s in states))
    out.append("def c15_dfaM_symbols : List Char := [%s]" % ", ".join(_c15_lean_char(c) for c in symbols))
    out.append("def c15_dfaM_init : Nat := %d" % init)
    out.append("def c15_dfaM_finals : List Nat := [%s]" % ", ".join(str(s) for s in finals))
    return out


def _c15_dict_in(fn, name):
    for node in ast.walk(fn):
        if isinstance(node, ast.Assign) and len(node.targets) == 1 and isinstance(node.targets[0], ast.Name) \
                and node.targets[0].id == name:
            return ast.literal_eval(node.value), node.lineno
    raise KeyError(name)


def c15_letter_dicts(repo):
    """letter_dict / opposite of sp_to_m and letter_dict of m_to_sp"""
    tree, rel = _c15_tree(repo)
    out = []
    f1 = _c15_func(tree, "sp_to_m")
    d, line = _c15_dict_in(f1, "letter_dict")
    out.append("/-- `sp_to_m.letter_dict` (%s:%d) -/" % (rel, line))
    out.append("def c15_spLetterDict : List (Char × List Char) := [%s]" % ", ".join(
        "(%s, [%s])" % (_c15_lean_char(k), ", ".join(_c15_lean_char(c) for c in v)) for k, v in d.items()))
    d, line = _c15_dict_in(f1, "opposite")
    out.append("/-- `sp_to_m.opposite` (%s:%d) -/" % (rel, line))
    out.append("def c15_opposite : List (Char × Char) := [%s]" % ", ".join(
        "(%s, %s)" % (_c15_lean_char(k), _c15_lean_char(v)) for k, v in d.items()))
    f2 = _c15_func(tree, "m_to_sp")
    d, line = _c15_dict_in(f2, "letter_dict")
    out.append("/-- `m_to_sp.letter_dict` (%s:%d) -/" % (rel, line))
    out.append("def c15_mLetterDict : List (Char × List Char) := [%s]" % ", ".join(
        "(%s, [%s])" % (_c15_lean_char(k), ", ".join(_c15_lean_char(c) for c in v)) for k, v in d.items()))
    return out


def _c16_perm_tuple(fn, name):
    """`name = (Perm((..)), Perm((..)), ...)` inside fn"""
    for node in ast.walk(fn):
        if isinstance(node, ast.Assign) and len(node.targets) == 1 and isinstance(node.targets[0], ast.Name) \
                and node.targets[0].id == name:
            res = []
            assert isinstance(node.value, ast.Tuple)
            for el in node.value.elts:
                assert isinstance(el, ast.Call) and isinstance(el.func, ast.Name) and el.func.id == "Perm"
                res.append(tuple(ast.literal_eval(el.args[0])))
            return res, node.lineno
    raise KeyError(name)


def c16_special_tables(repo):
    """the pattern tables of has_finite_alternations / has_finite_wedges_type_1 / _2"""
    tree, rel = _c15_tree(repo)
    out = []
    for fname, var, lean in (("has_finite_alternations", "alt_basis", "c16_altBasis"),
                             ("has_finite_wedges_type_1", "wedge1_b", "c16_wedge1"),
                             ("has_finite_wedges_type_2", "wedge2_b", "c16_wedge2")):
        fn = _c15_func(tree, fname)
        perms, line = _c16_perm_tuple(fn, var)
        out.append("/-- `%s.%s` (%s:%d) -/" % (fname, var, rel, line))
        out.append("def %s : List (List Nat) := [%s]" % (lean, ", ".join(
            "[%s]" % ", ".join(str(v) for v in p) for p in perms)))
    return out


ITEMS = [c15_dirs_quads, c15_dfa_m, c15_letter_dicts, c16_special_tables]
