#!/usr/bin/env python3
"""Writes MANIFEST.json from the per-property table below (single source of truth)."""
import json
import os

VERIF = os.path.dirname(os.path.dirname(os.path.abspath(__file__)))
BASE = json.load(open("/root/.vp/BASELINE.json"))["cmd"].replace("--junitxml=<file>", "").strip()

NOTE = ("Trusted: Lean 4.33 kernel; axioms propext/Classical.choice/Quot.sound only (audited every run, no "
        "native_decide/bv_decide/sorry); the hand-written model is tied to /repo by the per-run correspondence "
        "check (exhaustive-small + seeded random through the compiled Lean driver) and, for data tables, by the "
        "translator tools/translate.py (regenerated from the source on every run; the lock discipline and the comparison/"
        "hash dunders are strict - unreadable source breaks the obligation -, the other tables fall back to the pinned table "
        "and are then tied by correspondence, which the evidence lists as translator_fallbacks); agreement outside explored "
        "inputs is assumed. ")

# id -> (technique, level text, extra note, design ref)
CHECKS = {
 "C01": ("Lean 4 theorem model=spec (occurrencesIn_eq_spec, all pattern/permutation pairs) + correspondence of model and Perm.occurrences_in",
         "Proved in Lean for all permutations: the model of the occurrences_in search returns exactly the lexicographically "
         "ordered list of order-isomorphic index tuples, each once; containment/avoidance/count corollaries; memo-table history "
         "independence by induction over search histories. The model is tied to the code by exhaustive comparison of all pairs "
         "|pattern|<=4,|perm|<=7 (thorough 5/8) and planted random cases, plus an independent brute-force oracle.",
         "The rotating-deque code of left_floor_and_ceiling is modelled literally (termination of its three while loops proved for every input) "
         "and proved equal to the arg-max floor/ceiling; coloured occurrences proved equal to the colour-filtered spec list.", "5/C01"),
 "C02": ("Lean 4 model of the Av level cache/builder + insertion-criterion theorem; correspondence on query histories incl. iterators and cache clearing",
         "The class builder (end-insertion windows, shared spot lists, compaction), class cache and lazily evaluated iterators are "
         "modelled as an explicit process state machine; proved: the window-of-deletions insertion criterion for all bases/permutations. "
         "Every history line (constructions, count/of_length/in/up_to_length/first/enumeration/is_subclass/clear_cache, partially consumed "
         "iterators) is run on the real Av, on the model and on a brute-force oracle of the property text.",
         "Proved: cache invariant preserved by every level build (buildOne_correct), ensureLevel/getLevel return the spec level after ANY history "
         "(levels_history_independent), process-level refinement over arbitrary op sequences incl. clear_cache, other classes and partially consumed "
         "iterators (av_refines_spec, iterators_harmless, first_correct, upTo_iter_correct), is_subclass_correct for classical bases. "
         "One known finding (first(k) on mesh classes with an empty level followed by non-empty ones); mesh basis pruning is C05's subject.", "5/C02"),
 "C04": ("Lean 4 theorems: dihedral relations, containment equivariance (classical and mesh), orbits, lex_min invariance + correspondence",
         "Proved for all permutations, meshes and integer rotation counts: the group relations (including mesh cell maps), "
         "Contains (g s) (g p) <-> Contains s p and the mesh analogue for all eight symmetries, all_syms = orbit, lex_min constant on orbits. "
         "Tied to the code by exhaustive comparison (perms <=6, all meshes of length <=2, rotation counts -9..9) with a geometric oracle.",
         "regex / __str__ glue of the CLI body is correspondence-only.", "5/C04"),
 "C09": ("Lean 4 theorems: permsLex enumerates S_n sorted, rank/unrank mutually inverse and monotone, standardisation spec, notation round trips, mesh rank/unrank + correspondence",
         "Proved for all lengths/ranks/inputs: generators list every permutation once in (length, lex) order, rank/unrank inverse and order-matching "
         "(error branches explicit), to_standard is the unique tie-broken order-isomorphic permutation (memo history independent), notation round trips "
         "with exact domains, mesh rank/unrank/of_length bijective. Exhaustive correspondence on all ranks up to sum n! (n<=7).",
         "repr round trip proved for a parser of exactly the repr sub-grammar (parseRepr (repr s) = some s; the parser accepts nothing else); that Python's eval restricted to that sub-grammar is this parser is evaluated (streams repr-read / repr-malformed).", "5/C09"),
 "C10": ("Lean 4 theorems: closure, group laws, sum/skew/inflate configurations, shift actions, insert/remove inverses, decompositions, intervals, children/coveredby duality + correspondence",
         "54 theorems for all permutations and all argument values (including assert/IndexError branches); exhaustive correspondence for |p|<=6 "
         "with all indices/values/shifts in -2n..2n and an independent definitional oracle.",
         "uniqueness of decompositions and left-maximality of runs are evaluated only.", "5/C10"),
 "C03": ("Lean 4 theorem model=spec for mesh/bivincular/vincular/covincular occurrences + adjacency equivalence + correspondence over all shadings of short patterns",
         "Proved for all permutations and all meshes: the model of MeshPatt/BivincularPatt occurrences equals the spec list (occurrences of the "
         "underlying pattern with no other point in a shaded cell), same order, once each; the _to_shading mesh is equivalent to the adjacency "
         "requirements; mixed contains/avoids agree with the spec; history independence. Exhaustive correspondence over every shading of patterns of length <=2.",
         "", "5/C03"),
 "C06": ("Lean 4 theorems: sub_mesh_pattern shading characterisation, composition of occurrences, meshInMesh soundness and completeness for all permutations, strongest-subpattern + correspondence with semantic oracle",
         "Proved for all mesh pairs and ALL permutations: reported mesh-in-mesh containment transfers containment through the composed points; "
         "sub_mesh_pattern shades exactly the shaded point-free regions and is the strongest implied pattern. Exhaustive correspondence on all pairs |nu|<=1,|mu|<=2 "
         "over all shadings with a brute-force semantic oracle. Patt.contained_in / avoided_by with several mesh targets are modelled "
         "(containedInMeshes_sound: a reported True transfers to every permutation containing any one target).",
         "", "5/C06"),
 "C07": ("Lean 4 small-step model of threads sharing one Av object under the source's lock discipline + deterministic-scheduler correspondence on real threads",
         "Threads are modelled as a small-step machine over the C02 cache model (acquire, one write per shared mutation, release, read); real "
         "threads run the real methods under a seeded deterministic scheduler (settrace pre-emption at every line of permset.py, scheduler-aware "
         "lock), and results and final cache are compared with the model run in the observed acquisition order and with the sequential oracle.",
         "Proved for every number of threads, every assignment of queries and EVERY schedule: mutual exclusion, every visible level is the "
         "spec level at every moment (also mid-build/mid-compaction), no thread fails, every read returns the spec level (av_concurrent_correct, "
         "instantiated with the C02 cache invariant), every finished thread has exactly the answers it would have got alone, no reachable state is "
         "deadlocked, and every schedule that can be cut into enough fair rounds ends with all threads finished and correct. All of it holds for both "
         "lock disciplines the translator can read from the AST each run: the plain `with lock` of the source and double-checked locking (an existing "
         "level is read without the lock; fast_read_eq_locked_read). Atomicity of single CPython container operations and fairness of the real "
         "scheduler are assumed.", "5/C07"),
 "C12": ("Lean 4 theorems: sorting code = device, sortable <-> identity <-> pattern classes (Knuth), counters = least number of passes, Simion-Schmidt bijection, dihedral/alternating families + correspondence",
         "Proved for all permutations: stack/bubble/pop/quick sort code equals one pass of the device; sortable iff output is the identity iff "
         "Av(231) / Av(231,321) / Av(231,312); counters terminate with the least k; West-k iff count<=k; Simion-Schmidt is a bijection "
         "Av_n(123)->Av_n(132) fixing left-to-right minima, undone by its inverse, rejecting other inputs; dihedral group = n-gon symmetries; "
         "alternating = even parity (n>=3); family pattern tables regenerated from perm_properties.py. Exhaustive correspondence |s|<=8.",
         "Also proved for all permutations: West's theorem (two stack passes sort iff Av(2341, 3-bar5-241)), quick-sortable iff Av(321, 2413, (2143,{(2,2)})), and the mesh patterns of the source characterise the textbook index-level definitions of Baxter, simsun and forest-like permutations. The tableau of _perm_to_yt is standard, its first row is a longest increasing subsequence and its number of rows a longest decreasing one (Schensted), and the first k rows together are the largest union of k increasing subsequences for every k (Greene: ytShape_eq_RSK), which characterises yt_perm_avoids_22/_32.", "5/C12"),
 "C18": ("Lean 4 theorems: NE shading lemma and its rotations (can_shade/can_simul_shade/shadable_boxes sound for ALL permutations), add_point semantics, region lookups, ascii_plot round trip + correspondence with semantic brute-force oracle",
         "Proved for all meshes, cells and ALL permutations: a licensed shading does not change the set of containing permutations (single, "
         "simultaneous, table); add_point(mu,(x,y),d) is contained exactly in the permutations with an occurrence of mu having a point in the cell; "
         "is_shaded/is_pointfree/has_anchored_point/non_pointless_boxes are their region definitions; parsePlot(ascii_plot mu) = mu. "
         "Exhaustive correspondence over all 1042 meshes of length <=2 x all cells/pairs/directions with an independent oracle over all permutations <=6.",
         "can_simul_shade is modelled for arbitrary integer positions (Python negative-index wrap-around included): every non-empty answer lies in the grid and is sound, the only exception is IndexError. Plot round trip proved for cell size 1 only.", "5/C18"),
 "C17": ("Lean 4 theorems: BiSC (mine+forb) output is sound up to n, complete up to m and irredundant for ALL finite inputs and all three representations; private containment tests = mesh containment; clean-up invariant + correspondence with brute-force judge",
         "Proved for the model of mine/forb/bisc, for every finite list of permutations and all m<=n: bisc_sound, bisc_complete, bisc_irredundant, "
         "hitting_sound, mine_covers, the private containment tests equal mesh containment / sub-mesh inclusion, maximal mesh pattern, clean-up bases hit "
         "every tested bad permutation, representation independence. Tied to the code by all 1024 subsets of S_0..S_3 x all m<=n<=3 x list/dict/predicate and "
         "random arbitrary sets inside S_<=5, with the three guarantees re-judged on the implementation's own output by an independent mesh containment.",
         "auto_bisc is modelled for a property given as a function, a list and a pair of dictionaries (Model/C17Auto, C17AutoSrc: every choice of bases[0] is a parameter; a returned description passed both sanity checks up to L >= 8; the give-up exits are exactly the code's); the file-name branch and run_clean_up's error paths are evaluated only.", "5/C17"),
 "C05": ("Lean 4 theorems: Basis/MeshBasis construction is order- and repetition-independent, defines the same class, is an antichain and a fixed point; text base independence; Av instance sharing + correspondence",
         "Proved: Basis is the unique sorted antichain of containment-minimal inputs (perm/set invariance, same class via transitivity of containment, "
         "fixed point), from_string is base independent, equal bases give the same Av object; for MeshBasis (after the sort-key/shortcut fixes) the same "
         "statements for all well-formed mesh-type patterns, with same-class for ALL permutations via the C06 soundness/completeness theorems. "
         "Exhaustive correspondence over all sequences of <=3 perms of length <=3 and meshes of length <=1 in every order.",
         "", "5/C05"),
 "C08": ("Lean 4 model of Python rich-comparison/hash dispatch driven by AST-generated dunder tables; theorems: == equivalence across subclasses, eq => equal stable hash, (len,lex) strict total order, mesh order total across subclasses, sorted correctness + correspondence",
         "The isinstance guards and __hash__ body kinds of every dunder are regenerated from the source each run; proved about those tables: equality is "
         "value equality and an equivalence across the hierarchy, != is its negation, equal objects have equal hashes under every pair of allocation "
         "histories, set/dict lookup of an equal key succeeds, permutations are strictly totally ordered by (length, lex), every pair of mesh-type "
         "patterns is comparable, sorted() is correct. Exhaustive pairs/triples of a ~100-object pool; hash stability under allocation churn, gc and fresh interpreters.",
         "order laws of Basis/MeshBasis objects (inherited tuple comparison) are evaluated only.", "5/C08"),
 "C14": ("Lean 4 theorems: pin-word decoding total and geometric on the generator's language, generator = language, tables mutually inverse and history independent, SP<->M round trips, quadrant lemma, gap test = non-touching condition + correspondence; containment iff as bounded test",
         "Proved for all pin words of all lengths: pinword_to_perm succeeds exactly on the language and returns the permutation of the pin sequence it "
         "describes (each numeral an independent pin beyond all earlier points in its quadrant, each direction a separating pin), error kinds outside; "
         "pinwords_of_length lists the language without repetition; word->perm and perm->words tables are inverse and memo-history independent; "
         "m_to_sp/sp_to_m are mutually inverse; the (fixed) pinword_contains equals Thm 3.13's non-touching search. Letter tables regenerated from the source.",
         "The containment iff (Bassino-Bouvel-Pierrot-Rossin Thm 3.13) is PROVED in both directions for every pin word of the language and every permutation (pinword_contains_iff), with decode_act (decoding commutes with the eight symmetries); the former bounded test still runs as a correspondence test of the real code against the proved model.", "5/C14"),
 "C11": ("Lean 4 theorems: every listing/count/statistic model = its definitional spec (28 of the 32 named statistics, Fenwick-tree inversions, cycles/order, bounces, stack-sort counts, primes), name->function table regenerated from the source and decided, distribution/preservation tools + correspondence",
         "Proved for all permutations (most for all sequences): each counting form = length of its listing; the 20 positional listings = their definitional "
         "filters; single-pass algorithms (records, runs, major index, depth, rank encoding, holeyness), the Fenwick-tree inversion count, cycle decomposition "
         "and order (with termination), bounces, stack-sort counts (terminate, least k), is_prime <-> Nat.Prime; the generated 32-entry name->function table "
         "binds every proved name to the function its name promises (decide over the regenerated table); distributions sum to the class size; preservation/"
         "equidistribution tools report a statistic iff the defining identity holds. Exhaustive correspondence on all permutations of length <=7.",
         "known findings: table entries 14/15 (LIS/LDS bound to longest run; README doctest pins them), max_drop_size (doctest-pinned), layer peeling "
         "(doctest-pinned); pop-stack termination bound and threepats/fourpats/min_gapsize/jointly_* are correspondence-only.", "5/C11"),
 "C13": ("Lean 4 theorems: every scan = its juxtaposition/type class, verdict = criterion of the structure theorem, set semantics, memo/history and container independence, invariance under the eight symmetries, infinite classes never empty + correspondence against real enumeration",
         "Proved for all bases: each of the code's scans decides exactly its class (four juxtaposition classes, ten minimal non-polynomial classes incl. L2), "
         "is_finite/is_polynomial/is_insertion_encodable(_rightmost/_maximum) return exactly the right-hand side of their structure theorem, depend only on the "
         "set of basis elements (order, repetition, container kind incl. one-shot iterators, memo state and call history), are invariant under all eight "
         "symmetries, and a class declared infinite has a member of every length. Exhaustive correspondence on all subsets of <=3 perms of length <=4 in every "
         "container form, cross-checked by the oracle against brute-force enumeration (Erdos-Szekeres bound, Fibonacci lower bound) up to n=9.",
         "the structure theorems themselves (Kaiser-Klazar/Huczynska-Vatter, Albert-Linton-Ruskuc) are cited, not proved; the fib and Erdos-Szekeres bounds are evaluated up to n=9.", "5/C13"),
 "C19": ("Lean 4 theorems: each core strategy applies iff some symmetric image satisfies its stated condition, shape predicates = their definitions, totality, order/repetition invariance, quick = slow minus long strategies; strategy tables regenerated from source + correspondence",
         "Proved for all bases of non-empty permutations: coreApplies <-> exists symmetric image with every needed pattern excluded from the class and every "
         "other element of the prescribed one-plus-(in)decomposable form (zero_plus_*, Rd2134/Ru2143 shapes characterised by definition), no exception, invariance "
         "under order and repetition, insertion-encoding strategy = is_insertion_encodable, find_strategies(quick) = slow result minus long strategies. "
         "Exhaustive correspondence on all sets of <=3 permutations of length 1-4 with an independent oracle and all eight images.",
         "Every shape test of the eight core strategies (bstrip, RdCdCu/RdCu, the mesh conditions and last components of Rd2134/Ru2143) is proved equal to an index-free definition for all lengths; invariance under the eight symmetries is proved for every strategy and both searches; FinitelyManySimples takes has_finite_simples as input in the model; instantiated with C16's model the hypothesis is discharged (Props/C19Ext.lean: strategyApplies_act, findStrategies_sym_full).", "5/C19"),
 "C20": ("Lean 4 theorems: JSON round trip, read-after-writes for the generated open mode over all op histories, reader = file-value spec (missing/malformed reported, never other data), automaton DB invariants by induction over histories + correspondence + exhaustive enumeration of shipped data",
         "Proved: from_json(dumps d) = d; for the write mode and reader shape extracted from the source each run, after ANY sequence of writes/reads from any "
         "initial file system a read returns exactly the dataset last written to that name and other names are untouched; read_bisc_file returns data iff the "
         "whole file is one well-formed JSON object of lists of lists of naturals, otherwise reports INVALID (absent, non-JSON, trailing data, wrong shape); "
         "the DB returns the first automaton stored for a permutation after any store/load/create/restart history and memo agrees with file. "
         "Exhaustive histories (<=5 calls over 2 names x 3 datasets, empty and pre-populated dirs) against an abstract last-write-wins oracle.",
         "the shipped-data partition (all 28 files vs predicate and independent definitions) is a finite statement decided by complete enumeration in the harness; "
         "automaton language equivalence is checked on all words of length <=7.", "5/C20"),
 "C15": ("Lean 4 theorems: NFA language = A* phi(u1) A* ... phi(uk) A*, generated M table = alternating-axis words, finiteness test <-> bounded accepted length (pumping), basis automaton = union semantics + correspondence through canonical minimal automata; semantic iff as bounded test",
         "Proved for every pin word and every word: the model of make_nfa_for_pinword accepts exactly the factor language; the DFA-for-M table regenerated from the "
         "source accepts exactly the pin-sequence language; the basis automaton accepts w iff some pin word of some basis element does (order/repetition "
         "independent); 'finitely many pin permutations' <-> accepted words bounded in length (for every driver-executed instance via a checked certificate). "
         "automata-lib is not modelled: its DFAs are compared with the model's own determinise/minimise/product pipeline through canonical minimal forms, "
         "including every shipped dfa_db file against a fresh computation.",
         "accepts <-> the permutation of the pin sequence contains a basis element (Bassino-Bouvel-Pierrot-Rossin) is PROVED (Props/C15Ext.lean accepts_iff_contains and, stated purely on Model.C15 functions, accepts_iff_contains_own / has_finite_pinperms_iff_own with mToSp_bridge, isStrict_bridge, finpin_eq; from C14.pinword_contains_iff), as is has_finite_pinperms <-> the avoiding pin permutations are bounded, its dependence on the class only and its invariance under the eight symmetries; the bounded enumeration still runs as a test.", "5/C15"),
 "C16": ("Lean 4 theorems: decision logic of has_finite_simples / Av.has_finitely_many_simples / CLI / strategy, D8 characterisation and invariance of the special-simples test, explicit infinite families avoid the generated tables for all m + correspondence on all entry points with a brute-force simples oracle",
         "Proved: has_finite_simples = special AND pin for every flag combination, all four entry points ask the same question; the special test succeeds iff for "
         "each table T (parallel alternations, wedges type 1/2, regenerated from the source) and each of the eight symmetries some basis element avoids g.T, it "
         "depends only on the class, is order/repetition independent and D8-invariant; when it says 'infinitely many' an explicit family with members of "
         "every length >= 2m lies inside the class (parAlt/wedge families avoid the tables for ALL m).",
         "D8-invariance and class-only dependence of the whole verdict are proved without hypothesis (hasFiniteSimples_act_all / _class_only_all, through C14's Thm 3.13). Agreement of the verdict with the actual simples is PROVED in both directions without hypothesis (verdict_matches_simples: has_finite_simples B = True iff the simple permutations of Av(B) have bounded length): verdict False => simples beyond every bound (special half by explicit families, pin half through C14 Thm 3.13 and the geometry of proper pin sequences), verdict True => finitely many, through the Brignall-Huczynska-Vatter unavoidable-substructures theorem, itself proved (unavoidable_substructures, about 4500 lines). The brute-force count of simples up to n=9 still runs as a test.", "5/C16"),
}

PENDING = {}


def main():
    props = [json.loads(l) for l in open(os.path.join(VERIF, "properties.jsonl"))]
    checks = []
    na = []
    for p in props:
        pid = p["id"]
        if pid in CHECKS:
            tech, text, note, ref = CHECKS[pid]
            checks.append({
                "property_id": pid,
                "quick_cmd": "./check %s --tier quick" % pid,
                "thorough_cmd": "./check %s --tier thorough" % pid,
                "evidence_file": "evidence/%s.json" % pid,
                "replay_cmd_template": "./check %s --replay {path}" % pid,
                "engine": "lean-model+correspondence",
                "level_claimed": {"category": "proof", "text": text, "design_ref": "DESIGN.md section " + ref},
                "level_note": NOTE + note,
                "technique": tech,
            })
        else:
            na.append({"property_id": pid, "reason": PENDING.get(pid, "check not built yet in this round (model and theorems pending); not a limit of the technique - see DESIGN.md section 5")})
    man = {
        "version": 1,
        "setup_cmd": "./setup.sh",
        "hooks": {"guard": "PERMUTA_VERIF", "enable": "export PERMUTA_VERIF=1 (set by harness/core.py); no source hooks are needed at present",
                  "baseline_off_cmd": BASE, "source_commits": [], "add_only": True},
        "engines": [{"name": "lean-model+correspondence", "path": "lean/ harness/ tools/",
                     "serves_properties": sorted(CHECKS), "kind_free_text":
                     "Lean 4 model + theorems (lake project lean/), compiled line-protocol driver, Python correspondence harness and AST translator"}],
        "checks": checks,
        "not_applicable": na,
        "notes": "See DESIGN.md. Every check: regenerate tables from /repo, lake build, axiom audit, correspondence, failing-input search, evidence.",
    }
    json.dump(man, open(os.path.join(VERIF, "MANIFEST.json"), "w"), indent=1)


if __name__ == "__main__":
    main()
