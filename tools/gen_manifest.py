#!/usr/bin/env python3
"""Writes MANIFEST.json from the per-property table below (single source of truth)."""
import json
import os

VERIF = os.path.dirname(os.path.dirname(os.path.abspath(__file__)))
BASE = json.load(open("/root/.vp/BASELINE.json"))["cmd"].replace("--junitxml=<file>", "").strip()

NOTE = ("Trusted: Lean 4.33 kernel; axioms propext/Classical.choice/Quot.sound only (audited every run, no "
        "native_decide/bv_decide/sorry); the hand-written model is tied to /repo by the per-run correspondence "
        "check (exhaustive-small + seeded random through the compiled Lean driver) and, for data tables, by the "
        "translator tools/translate.py; agreement outside explored inputs is assumed. ")

# id -> (technique, level text, extra note, design ref)
CHECKS = {
 "C01": ("Lean 4 theorem model=spec (occurrencesIn_eq_spec, all pattern/permutation pairs) + correspondence of model and Perm.occurrences_in",
         "Proved in Lean for all permutations: the model of the occurrences_in search returns exactly the lexicographically "
         "ordered list of order-isomorphic index tuples, each once; containment/avoidance/count corollaries; memo-table history "
         "independence by induction over search histories. The model is tied to the code by exhaustive comparison of all pairs "
         "|pattern|<=4,|perm|<=7 (thorough 5/8) and planted random cases, plus an independent brute-force oracle.",
         "left_floor_and_ceiling modelled by its arg-max specification; coloured occurrences correspondence-only.", "5/C01"),
}

PENDING = {}


def main():
    props = [json.loads(l) for l in open(os.path.join(VERIF, "properties.jsonl"))]
    checks = []
    na = []
    for p in props:
        pid = p["id"]
        if pid in CHECKS:
            tech, text, note, ref = CHECKS[pid]
            checks.append({
                "property_id": pid,
                "quick_cmd": "./check %s --tier quick" % pid,
                "thorough_cmd": "./check %s --tier thorough" % pid,
                "evidence_file": "evidence/%s.json" % pid,
                "replay_cmd_template": "./check %s --replay {path}" % pid,
                "engine": "lean-model+correspondence",
                "level_claimed": {"category": "proof", "text": text, "design_ref": "DESIGN.md section " + ref},
                "level_note": NOTE + note,
                "technique": tech,
            })
        else:
            na.append({"property_id": pid, "reason": PENDING.get(pid, "check not built yet in this round (model and theorems pending); not a limit of the technique - see DESIGN.md section 5")})
    man = {
        "version": 1,
        "setup_cmd": "./setup.sh",
        "hooks": {"guard": "PERMUTA_VERIF", "enable": "export PERMUTA_VERIF=1 (set by harness/core.py); no source hooks are needed at present",
                  "baseline_off_cmd": BASE, "source_commits": [], "add_only": True},
        "engines": [{"name": "lean-model+correspondence", "path": "lean/ harness/ tools/",
                     "serves_properties": sorted(CHECKS), "kind_free_text":
                     "Lean 4 model + theorems (lake project lean/), compiled line-protocol driver, Python correspondence harness and AST translator"}],
        "checks": checks,
        "not_applicable": na,
        "notes": "See DESIGN.md. Every check: regenerate tables from /repo, lake build, axiom audit, correspondence, failing-input search, evidence.",
    }
    json.dump(man, open(os.path.join(VERIF, "MANIFEST.json"), "w"), indent=1)


if __name__ == "__main__":
    main()
