"""Extraction items for translate.py: each function takes the repo path and returns Lean lines."""
ITEMS = []
