"""Extraction items for translate.py: each function takes the repo path and returns Lean lines.
Pure `ast` walking of the repository's current source text; nothing from the repository is executed."""
import ast
import os
import sys
sys.path.insert(0, os.path.dirname(os.path.abspath(__file__)))
import astnorm  # noqa: E402


def _parse(repo, rel):
    with open(os.path.join(repo, rel)) as f:
        src = f.read()
    return ast.parse(src), src


def _lean_bool(b):
    return "true" if b else "false"


def _is_attr(node, base, attr):
    return (isinstance(node, ast.Attribute) and node.attr == attr and isinstance(node.value, ast.Name)
            and node.value.id == base)


def lock_discipline(repo):
    """C07: the lock discipline of Av._get_level / _ensure_level (perm_sets/permset.py)"""
    tree, _ = _parse(repo, "permuta/perm_sets/permset.py")
    av = next(n for n in tree.body if isinstance(n, ast.ClassDef) and n.name == "Av")
    # class-level lock shared by all instances: any class attribute bound to `<module>.Lock()` / `RLock()`
    # (the name is the maintainer's choice; a re-entrant lock serialises the same way because no holder re-enters)
    lock_names = set()
    for s in av.body:
        if isinstance(s, ast.Assign) and isinstance(s.value, ast.Call) and not s.value.args and not s.value.keywords \
                and isinstance(s.value.func, ast.Attribute) and s.value.func.attr in ("Lock", "RLock") \
                and isinstance(s.value.func.value, ast.Name) and s.value.func.value.id in ("multiprocessing", "threading"):
            lock_names |= {t.id for t in s.targets if isinstance(t, ast.Name)}
    # ... never rebound on an instance or on the class later on
    for n in ast.walk(tree):
        if isinstance(n, (ast.Assign, ast.AugAssign, ast.AnnAssign)):
            for t in (n.targets if isinstance(n, ast.Assign) else [n.target]):
                if isinstance(t, ast.Attribute) and t.attr in lock_names:
                    lock_names.discard(t.attr)
    shared = bool(lock_names)

    def is_lock_with(w):
        return isinstance(w, ast.With) and any(
            isinstance(i.context_expr, ast.Attribute) and i.context_expr.attr in lock_names
            and ast.unparse(i.context_expr.value) in ("Av", "cls", "self", "type(self)", "self.__class__")
            for i in w.items)

    # The methods are found by what they do, not by their names (a maintainer may rename private methods):
    #   an UNLOCKED WRITER is a method that changes `self.cache` (assignment to it or to one of its items, or a call
    #   of a mutating list method on it) outside a `with <lock>` block, or calls an unlocked writer (self.<m>(...))
    #   outside a `with <lock>` block  -  least fixpoint.  In the source these are _ensure_level and the two builders.
    methods = {n.name: n for n in av.body if isinstance(n, ast.FunctionDef)}
    _MUT = {"append", "extend", "insert", "pop", "clear", "remove", "sort", "reverse", "__setitem__", "__delitem__"}

    def locked_ids(fn):
        ids = set()
        for w in ast.walk(fn):
            if is_lock_with(w):
                for sub in ast.walk(w):
                    ids.add(id(sub))
        return ids

    def is_cache(e):
        return _is_attr(e, "self", "cache")

    def direct_unlocked_write(fn):
        lk = locked_ids(fn)
        for n in ast.walk(fn):
            if id(n) in lk:
                continue
            if isinstance(n, (ast.Assign, ast.AugAssign, ast.AnnAssign, ast.Delete)):
                tg = n.targets if isinstance(n, (ast.Assign, ast.Delete)) else [n.target]
                for t in tg:
                    for x in ast.walk(t):
                        if is_cache(x) or (isinstance(x, ast.Subscript) and is_cache(x.value)):
                            return True
            if isinstance(n, ast.Call) and isinstance(n.func, ast.Attribute) and n.func.attr in _MUT and is_cache(n.func.value):
                return True
        return False

    def self_calls(fn, only_unlocked):
        lk = locked_ids(fn) if only_unlocked else set()
        return {c.func.attr for c in ast.walk(fn)
                if isinstance(c, ast.Call) and isinstance(c.func, ast.Attribute) and isinstance(c.func.value, ast.Name)
                and c.func.value.id == "self" and c.func.attr in methods and id(c) not in lk}

    unlocked = {m for m, fn in methods.items() if direct_unlocked_write(fn)}
    changed = True
    while changed:
        changed = False
        for m, fn in methods.items():
            if m not in unlocked and self_calls(fn, True) & unlocked:
                unlocked.add(m)
                changed = True

    def calls_ensure(node):
        return any(isinstance(c, ast.Call) and isinstance(c.func, ast.Attribute) and isinstance(c.func.value, ast.Name)
                   and c.func.value.id == "self" and c.func.attr in unlocked for c in ast.walk(node))

    # the guarded entry point(s): methods with a top-level `with <lock>` block that calls an unlocked writer
    entries = [fn for fn in methods.values() if any(is_lock_with(st) and calls_ensure(st) for st in fn.body)]
    if len(entries) != 1:
        raise ValueError("expected exactly one method that builds levels inside `with <lock>`, found %d" % len(entries))
    get_level = entries[0]
    # every way into an unlocked writer goes through a lock: no public or special method is an unlocked writer
    # (private unlocked writers are reached only from locked regions or from other unlocked writers, by construction)
    under = not any((not m.startswith("_")) or (m.startswith("__") and m.endswith("__")) for m in unlocked) and bool(unlocked)
    # optional lock-free fast path (double-checked locking) in front of the `with` block:
    #     if <conjunction containing  level_number < len(self.cache)>:
    #         return self.cache[level_number]
    # the bound may be written `len(self.cache) > level_number` or inside a chained comparison
    # (`0 <= level_number < len(self.cache)`); every other conjunct only makes the test fire less often and
    # must be side-effect free (comparisons, names, constants, calls of isinstance/len/type only)
    params = [a.arg for a in get_level.args.args]
    lvl = params[1] if len(params) > 1 else None

    def is_lvl(e):
        return lvl is not None and isinstance(e, ast.Name) and e.id == lvl

    def is_cache_len(e):
        return (isinstance(e, ast.Call) and isinstance(e.func, ast.Name) and e.func.id == "len" and len(e.args) == 1
                and not e.keywords and _is_attr(e.args[0], "self", "cache"))

    def conjuncts(t):
        if isinstance(t, ast.BoolOp) and isinstance(t.op, ast.And):
            return [c for v in t.values for c in conjuncts(v)]
        return [t]

    def pure(t):
        for x in ast.walk(t):
            if isinstance(x, ast.Call) and not (isinstance(x.func, ast.Name) and x.func.id in ("isinstance", "len", "type")):
                return False
            if isinstance(x, (ast.NamedExpr, ast.Await, ast.Yield, ast.YieldFrom, ast.Lambda)):
                return False
        return True

    def has_bound(t):
        for c in conjuncts(t):
            if isinstance(c, ast.Compare):
                operands = [c.left] + list(c.comparators)
                for i, op in enumerate(c.ops):
                    left, right = operands[i], operands[i + 1]
                    if isinstance(op, ast.Lt) and is_lvl(left) and is_cache_len(right):
                        return True
                    if isinstance(op, ast.Gt) and is_cache_len(left) and is_lvl(right):
                        return True
        return False

    def is_fast_path(st):
        if not (isinstance(st, ast.If) and not st.orelse and len(st.body) == 1 and isinstance(st.body[0], ast.Return)):
            return False
        v = st.body[0].value
        returns_level = (isinstance(v, ast.Subscript) and _is_attr(v.value, "self", "cache") and is_lvl(v.slice))
        return returns_level and pure(st.test) and has_bound(st.test)

    # in _get_level: the statement that reads self.cache for the result comes after the `with`; the only
    # read of self.cache allowed before it is the recognised fast path
    read_after = False
    seen_with = False
    reads_before = False
    fast_path = False
    for st in get_level.body:
        if is_lock_with(st) and calls_ensure(st):
            seen_with = True
            continue
        if not seen_with and is_fast_path(st):
            fast_path = True
            continue
        reads_cache = any(_is_attr(x, "self", "cache") for x in ast.walk(st))
        if reads_cache and not seen_with:
            reads_before = True
        if isinstance(st, ast.Return) and reads_cache and seen_with:
            read_after = True
    read_after = read_after and not reads_before
    return [
        "/-- permset.py `Av._get_level`/`_ensure_level`: (every `_ensure_level` call is inside `with Av._CACHE_LOCK`,",
        "    the result is read from `self.cache` only after that block — apart from the recognised lock-free fast path,",
        "    see `lockFastPath` —, the lock is a class attribute) -/",
        "def lockDiscipline : Bool × Bool × Bool := (%s, %s, %s)" % (_lean_bool(under), _lean_bool(read_after), _lean_bool(shared)),
        "/-- `Av._get_level` starts with `if <… level_number < len(self.cache) …>: return self.cache[level_number]`",
        "    (double-checked locking: an existing level is handed out without taking the lock) -/",
        "def lockFastPath : Bool := %s" % _lean_bool(fast_path and seen_with),
    ]


ITEMS = [lock_discipline]
try:
    from translate_c12 import ITEMS as _C12
    ITEMS += _C12
except ImportError:
    pass


# ----------------------------------------------------------------------------- C08: dunder tables
# Comparison / hash dunder methods of the pattern and basis classes: for every class the
# `isinstance` guard on `other`, what is returned when the guard fails, the kind of body, and the
# kind of `__hash__` body - read from the AST of the current source.

_C08_CLASSES = [
    ("Perm", "permuta/patterns/perm.py"),
    ("MeshPatt", "permuta/patterns/meshpatt.py"),
    ("BivincularPatt", "permuta/patterns/bivincularpatt.py"),
    ("VincularPatt", "permuta/patterns/bivincularpatt.py"),
    ("CovincularPatt", "permuta/patterns/bivincularpatt.py"),
    ("Basis", "permuta/perm_sets/basis.py"),
    ("MeshBasis", "permuta/perm_sets/basis.py"),
]
_C08_METHS = [("eq", "__eq__"), ("ne", "__ne__"), ("lt", "__lt__"), ("le", "__le__"), ("gt", "__gt__"), ("ge", "__ge__")]
_C08_OPS = {ast.Lt: "lt", ast.LtE: "le", ast.Gt: "gt", ast.GtE: "ge", ast.Eq: "eq"}


def _c08_classdef(repo, cls, rel, with_tree=False):
    tree = ast.parse(open(os.path.join(repo, rel)).read())
    for node in tree.body:
        if isinstance(node, ast.ClassDef) and node.name == cls:
            return (node, tree) if with_tree else node
    raise LookupError("class %s not found in %s" % (cls, rel))


def _c08_body(fn):
    body = list(fn.body)
    if body and isinstance(body[0], ast.Expr) and isinstance(getattr(body[0], "value", None), ast.Constant) \
            and isinstance(body[0].value.value, str):
        body = body[1:]
    return body


def _c08_guard_of(test):
    """`isinstance(other, X)` -> Lean DGuard term"""
    if not (isinstance(test, ast.Call) and isinstance(test.func, ast.Name) and test.func.id == "isinstance"
            and len(test.args) == 2 and isinstance(test.args[0], ast.Name) and test.args[0].id == "other"):
        raise ValueError("guard is not isinstance(other, X): " + ast.unparse(test))
    x = ast.unparse(test.args[1])
    if x == "self.__class__":
        return ".selfClass"
    names = [c for c, _ in _C08_CLASSES]
    if x in names:
        return "(.named .%s)" % x
    raise ValueError("guard class not modelled: " + x)


def _c08_classify(expr):
    """kind of the expression returned after the guard -> Lean DBody term"""
    s = ast.unparse(expr)
    if isinstance(expr, ast.Compare) and len(expr.ops) == 1 and type(expr.ops[0]) in _C08_OPS:
        op = _C08_OPS[type(expr.ops[0])]
        l, r = ast.unparse(expr.left), ast.unparse(expr.comparators[0])
        if l == "(len(self), tuple(self))" and r == "(len(other), tuple(other))":
            return "(.lenTuple .%s)" % op
        if l == "(self.pattern, sorted(self.shading))" and r == "(other.pattern, sorted(other.shading))":
            return "(.meshKey .%s)" % op
    if isinstance(expr, ast.Call) and isinstance(expr.func, ast.Attribute) and len(expr.args) == 1 \
            and ast.unparse(expr.args[0]) == "self" and ast.unparse(expr.func.value) == "other":
        for m, d in _C08_METHS:
            if expr.func.attr == d:
                return "(.swapped .%s)" % m
    if isinstance(expr, ast.BoolOp) and isinstance(expr.op, ast.And):
        parts = sorted(ast.unparse(v) for v in expr.values)
        if parts == ["self.pattern == other.pattern", "self.shading == other.shading"]:
            return ".fieldsEq"
    if s == "tuple.__eq__(self, other)":
        return ".tupleEq"
    if s == "not self == other":
        return ".notEq"
    raise ValueError("unrecognised dunder body: " + s)


_C08_SELF_ANSWER = {"__eq__": "True", "__le__": "True", "__ge__": "True", "__ne__": "False", "__lt__": "False", "__gt__": "False"}


def _c08_dunder(fn):
    body = _c08_body(fn)
    # identity fast path `if other is self: return <what reflexivity / irreflexivity gives>`: dropped, because the
    # model proves that answer for equal operands anyway (C08.eq_equivalence, perm_order_strict_total, ...), so the
    # function with and without it are the same function whenever the rest is one of the recognised shapes
    if len(body) >= 2 and isinstance(body[0], ast.If) and not body[0].orelse and len(body[0].body) == 1 \
            and isinstance(body[0].body[0], ast.Return) \
            and ast.unparse(body[0].test) in ("other is self", "self is other") \
            and ast.unparse(body[0].body[0].value) == _C08_SELF_ANSWER.get(fn.name):
        body = body[1:]
    # E: length first -  if len(self) != len(other): return len(self) < len(other) ; return tuple.__op__(self, tuple(other))
    if len(body) == 2 and isinstance(body[0], ast.If) and not body[0].orelse and len(body[0].body) == 1 \
            and isinstance(body[0].body[0], ast.Return) and isinstance(body[1], ast.Return) \
            and ast.unparse(body[0].test) in ("len(self) != len(other)", "len(other) != len(self)"):
        first, last = ast.unparse(body[0].body[0].value), ast.unparse(body[1].value)
        for op, sym in (("lt", "<"), ("le", "<="), ("gt", ">"), ("ge", ">=")):
            strict = {"lt": "<", "le": "<", "gt": ">", "ge": ">"}[op]
            if first == "len(self) %s len(other)" % strict and last in (
                    "tuple.__%s__(self, tuple(other))" % op, "tuple(self) %s tuple(other)" % sym):
                return ".noGuard", ".retNotImplemented", "(.lenTuple .%s)" % op
    # A: if not isinstance(other, X): return NotImplemented ; return expr
    if len(body) == 2 and isinstance(body[0], ast.If) and isinstance(body[0].test, ast.UnaryOp) \
            and isinstance(body[0].test.op, ast.Not) and not body[0].orelse and len(body[0].body) == 1 \
            and isinstance(body[0].body[0], ast.Return) and isinstance(body[1], ast.Return):
        g = _c08_guard_of(body[0].test.operand)
        rv = ast.unparse(body[0].body[0].value)
        if rv not in ("NotImplemented", "False"):
            raise ValueError("guard failure returns " + rv)
        return g, (".retNotImplemented" if rv == "NotImplemented" else ".retFalse"), _c08_classify(body[1].value)
    # B: if isinstance(other, X): return expr ; return False
    if len(body) == 2 and isinstance(body[0], ast.If) and not body[0].orelse and len(body[0].body) == 1 \
            and isinstance(body[0].body[0], ast.Return) and isinstance(body[1], ast.Return):
        g = _c08_guard_of(body[0].test)
        rv = ast.unparse(body[1].value)
        if rv not in ("NotImplemented", "False"):
            raise ValueError("guard failure returns " + rv)
        return g, (".retNotImplemented" if rv == "NotImplemented" else ".retFalse"), _c08_classify(body[0].body[0].value)
    if len(body) == 1 and isinstance(body[0], ast.Return):
        e = body[0].value
        # C: return isinstance(other, X) and expr
        if isinstance(e, ast.BoolOp) and isinstance(e.op, ast.And) and len(e.values) == 2 \
                and isinstance(e.values[0], ast.Call) and ast.unparse(e.values[0].func) == "isinstance":
            return _c08_guard_of(e.values[0]), ".retFalse", _c08_classify(e.values[1])
        # D: no guard
        return ".noGuard", ".retNotImplemented", _c08_classify(e)
    raise ValueError("unrecognised dunder shape in %s" % fn.name)


def _c08_hash(fn):
    body = _c08_body(fn)
    if len(body) != 1 or not isinstance(body[0], ast.Return):
        raise ValueError("unrecognised __hash__ shape")
    s = ast.unparse(body[0].value)
    if s in ("hash((self.pattern, self.shading))", "hash((self.shading, self.pattern))"):
        return ".valueHash"
    if s == "tuple.__hash__(self)":
        return ".tupleHash"
    if s == "hash(super())":
        return ".identityOfTemporary"
    if s in ("super().__hash__()", "MeshPatt.__hash__(self)"):
        return ".superHash"
    raise ValueError("unrecognised __hash__ body: " + s)


def c08_dunders(repo):
    names = [c for c, _ in _C08_CLASSES]
    out = ["/-! ### C08: comparison / hash dunders (guards, failure value, body kind) -/",
           "inductive DCls where", "  | " + " | ".join(names), "deriving DecidableEq, Repr",
           "inductive DMeth where", "  | eq | ne | lt | le | gt | ge", "deriving DecidableEq, Repr",
           "/-- the `isinstance(other, …)` test at the top of a comparison dunder -/",
           "inductive DGuard where", "  | noGuard | selfClass | named (c : DCls)", "deriving DecidableEq, Repr",
           "/-- what the dunder returns when the guard fails -/",
           "inductive DFail where", "  | retFalse | retNotImplemented", "deriving DecidableEq, Repr",
           "/-- the expression returned when the guard passes:",
           "    `lenTuple op`  = `(len(self), tuple(self)) op (len(other), tuple(other))`,",
           "    `meshKey op`   = `(self.pattern, sorted(self.shading)) op (other.pattern, sorted(other.shading))`,",
           "    `swapped m`    = `other.__m__(self)`,",
           "    `fieldsEq`     = `self.pattern == other.pattern and self.shading == other.shading`,",
           "    `tupleEq`      = `tuple.__eq__(self, other)`,",
           "    `notEq`        = `not self == other` -/",
           "inductive DBody where", "  | lenTuple (op : DMeth) | meshKey (op : DMeth) | swapped (m : DMeth) | fieldsEq | tupleEq | notEq",
           "deriving DecidableEq, Repr",
           "structure DDunder where", "  guard : DGuard", "  fail : DFail", "  body : DBody", "deriving DecidableEq, Repr",
           "/-- body of `__hash__`: `hash((self.pattern, self.shading))` | `tuple.__hash__(self)` |",
           "    `hash(super())` (identity of a temporary `super` object) | `super().__hash__()` |",
           "    not defined in the class body -/",
           "inductive DHash where", "  | valueHash | tupleHash | identityOfTemporary | superHash | notDefined",
           "deriving DecidableEq, Repr", ""]
    parents, tuples, dund, hashes = [], [], [], []
    for cls, rel in _C08_CLASSES:
        node, tree = _c08_classdef(repo, cls, rel, with_tree=True)
        par, is_tuple = "none", "false"
        for b in node.bases:
            bs = ast.unparse(b)
            if bs in names and par == "none":
                par = "some .%s" % bs
            if bs == "tuple" or bs.startswith("Tuple["):
                is_tuple = "true"
        parents.append("  | .%s => %s" % (cls, par))
        tuples.append("  | .%s => %s" % (cls, is_tuple))
        # harmless rewrites (pure single-return helpers, leading local bindings) are normalised away first
        meths = {f.name: astnorm.normalise(f, tree, node) for f in node.body
                 if isinstance(f, ast.FunctionDef) and f.name in [d for _, d in _C08_METHS] + ["__hash__"]}
        linenos = {f.name: f.lineno for f in node.body if isinstance(f, ast.FunctionDef)}
        for m, d in _C08_METHS:
            if d in meths:
                g, f, b = _c08_dunder(meths[d])
                dund.append("  | .%s, .%s => some ⟨%s, %s, %s⟩  -- %s:%d" % (cls, m, g, f, b, rel, linenos[d]))
        if "__hash__" in meths:
            hashes.append("  | .%s => %s  -- %s:%d" % (cls, _c08_hash(meths["__hash__"]), rel, linenos["__hash__"]))
        else:
            hashes.append("  | .%s => .notDefined" % cls)
    out += ["/-- first base class among the modelled classes -/", "def dParent : DCls → Option DCls"] + parents + [""]
    out += ["/-- `tuple` is a direct base class -/", "def dIsTuple : DCls → Bool"] + tuples + [""]
    out += ["/-- `none`: the class body does not define the method (it is inherited) -/",
            "def dunder : DCls → DMeth → Option DDunder"] + dund + ["  | _, _ => none", ""]
    out += ["def hashBody : DCls → DHash"] + hashes
    return out


ITEMS.append(c08_dunders)

try:
    from translate_c14 import ITEMS as _C14
    ITEMS += _C14
except ImportError:
    pass

try:
    from translate_c11 import ITEMS as _C11
    ITEMS += _C11
except ImportError:
    pass

try:
    from translate_c13 import ITEMS as _C13
    ITEMS += _C13
except ImportError:
    pass

try:
    from translate_c20 import ITEMS as _C20
    ITEMS += _C20
except ImportError:
    pass

try:
    from translate_c15 import ITEMS as _C15
    ITEMS += _C15
except ImportError:
    pass
