"""Extraction items for translate.py: each function takes the repo path and returns Lean lines.
Pure `ast` walking of the repository's current source text; nothing from the repository is executed."""
import ast
import os


def _parse(repo, rel):
    with open(os.path.join(repo, rel)) as f:
        src = f.read()
    return ast.parse(src), src


def _lean_bool(b):
    return "true" if b else "false"


def _is_attr(node, base, attr):
    return (isinstance(node, ast.Attribute) and node.attr == attr and isinstance(node.value, ast.Name)
            and node.value.id == base)


def lock_discipline(repo):
    """C07: the lock discipline of Av._get_level / _ensure_level (perm_sets/permset.py)"""
    tree, _ = _parse(repo, "permuta/perm_sets/permset.py")
    av = next(n for n in tree.body if isinstance(n, ast.ClassDef) and n.name == "Av")
    # class-level lock shared by all instances
    shared = any(isinstance(s, ast.Assign) and any(isinstance(t, ast.Name) and t.id == "_CACHE_LOCK" for t in s.targets)
                 for s in av.body)
    get_level = next(n for n in av.body if isinstance(n, ast.FunctionDef) and n.name == "_get_level")

    def is_lock_with(w):
        return isinstance(w, ast.With) and any(
            _is_attr(i.context_expr, "Av", "_CACHE_LOCK") or _is_attr(i.context_expr, "cls", "_CACHE_LOCK")
            for i in w.items)

    def calls_ensure(node):
        return any(isinstance(c, ast.Call) and isinstance(c.func, ast.Attribute) and c.func.attr == "_ensure_level"
                   for c in ast.walk(node))

    # every call of _ensure_level anywhere in the class must be lexically inside `with Av._CACHE_LOCK`
    under = True
    found_call = False
    for fn in [n for n in av.body if isinstance(n, ast.FunctionDef)]:
        locked_nodes = set()
        for w in ast.walk(fn):
            if is_lock_with(w):
                for sub in ast.walk(w):
                    locked_nodes.add(id(sub))
        for c in ast.walk(fn):
            if isinstance(c, ast.Call) and isinstance(c.func, ast.Attribute) and c.func.attr == "_ensure_level":
                found_call = True
                if id(c) not in locked_nodes:
                    under = False
    under = under and found_call
    # in _get_level: the statement that reads self.cache for the result comes after the `with`
    read_after = False
    seen_with = False
    reads_before = False
    for st in get_level.body:
        if is_lock_with(st) and calls_ensure(st):
            seen_with = True
            continue
        reads_cache = any(_is_attr(x, "self", "cache") for x in ast.walk(st))
        if reads_cache and not seen_with:
            reads_before = True
        if isinstance(st, ast.Return) and reads_cache and seen_with:
            read_after = True
    read_after = read_after and not reads_before
    return [
        "/-- permset.py `Av._get_level`/`_ensure_level`: (every `_ensure_level` call is inside `with Av._CACHE_LOCK`,",
        "    the result is read from `self.cache` only after that block, the lock is a class attribute) -/",
        "def lockDiscipline : Bool × Bool × Bool := (%s, %s, %s)" % (_lean_bool(under), _lean_bool(read_after), _lean_bool(shared)),
    ]


ITEMS = [lock_discipline]
try:
    from translate_c12 import ITEMS as _C12
    ITEMS += _C12
except ImportError:
    pass
