"""C14 extraction items for translate.py (pin-word letter dictionaries, PinWordUtil dispatch and
method shapes): pure `ast` walking; imported by translate_items.py.  `c14_extract` is also used by
harness/c14.py's translator self-check."""
import ast
import os

ITEMS = []


# ----------------------------------------------------------------------------- helpers
def _parse(repo, rel):
    path = os.path.join(repo, rel)
    return ast.parse(open(path).read(), filename=path)


def _lean_str(s):
    return '"' + s.replace("\\", "\\\\").replace('"', '\\"') + '"'


def _find_class(tree, name):
    for node in tree.body:
        if isinstance(node, ast.ClassDef) and node.name == name:
            return node
    raise LookupError("class %s not found" % name)


def _find_func(cls, name):
    for node in cls.body:
        if isinstance(node, (ast.FunctionDef, ast.AsyncFunctionDef)) and node.name == name:
            return node
    raise LookupError("function %s not found" % name)


def _str_dict(node):
    """{"a": "b", ...} literal -> list of (key, value) strings"""
    if not isinstance(node, ast.Dict):
        raise LookupError("not a dict literal")
    out = []
    for k, v in zip(node.keys, node.values):
        if not (isinstance(k, ast.Constant) and isinstance(k.value, str)):
            raise LookupError("non-string key")
        if isinstance(v, ast.Constant) and isinstance(v.value, str):
            out.append((k.value, v.value))
        elif isinstance(v, ast.Attribute):          # self.char_1
            out.append((k.value, v.attr))
        else:
            raise LookupError("unsupported dict value")
    return out


def _local_dict(func, varname):
    """the dict literal assigned to the local variable `varname` inside func"""
    for node in ast.walk(func):
        tgt = None
        if isinstance(node, ast.Assign) and len(node.targets) == 1:
            tgt, val = node.targets[0], node.value
        elif isinstance(node, ast.AnnAssign) and node.value is not None:
            tgt, val = node.target, node.value
        if tgt is None:
            continue
        if isinstance(tgt, ast.Name) and tgt.id == varname and isinstance(val, ast.Dict):
            return _str_dict(val), node.lineno
        if isinstance(tgt, ast.Attribute) and tgt.attr == varname and isinstance(val, ast.Dict):
            return _str_dict(val), node.lineno
    raise LookupError("dict %s not found in %s" % (varname, func.name))


def _pairs(name, pairs, comment):
    body = ", ".join("(%s, %s)" % (_lean_str(k), _lean_str(v)) for k, v in pairs)
    return ["/-- %s -/" % comment, "def %s : List (String × String) := [%s]" % (name, body)]


# ----------------------------------------------------------------------------- C14
def _call_name(node):
    """PinWordUtil.max_x(pre_perm[:-1]) -> ("max_x", "init") ; PinWordUtil.max_y(pre_perm) -> ("max_y", "all")"""
    if not (isinstance(node, ast.Call) and isinstance(node.func, ast.Attribute) and len(node.args) == 1):
        raise LookupError("unexpected call shape")
    arg = node.args[0]
    if isinstance(arg, ast.Name):
        scope = "all"
    elif (isinstance(arg, ast.Subscript) and isinstance(arg.slice, ast.Slice) and arg.slice.lower is None
          and isinstance(arg.slice.upper, ast.UnaryOp) and isinstance(arg.slice.upper.op, ast.USub)
          and isinstance(arg.slice.upper.operand, ast.Constant) and arg.slice.upper.operand.value == 1):
        scope = "init"
    else:
        raise LookupError("unexpected argument shape")
    return node.func.attr, scope


def _assign(stmt):
    if not (isinstance(stmt, ast.Assign) and len(stmt.targets) == 1 and isinstance(stmt.targets[0], ast.Name)):
        raise LookupError("unexpected statement")
    return stmt.targets[0].id, stmt.value


def _ext(value):
    """PinWordUtil.max_y(pre_perm) + self.one -> "max_y.all.Add.one" """
    if not (isinstance(value, ast.BinOp) and isinstance(value.right, ast.Attribute)):
        raise LookupError("unexpected extremal expression")
    fn, scope = _call_name(value.left)
    return "%s.%s.%s.%s" % (fn, scope, type(value.op).__name__, value.right.attr)


def _mid(value):
    """self.half * (last_x + PinWordUtil.max_x(pre_perm[:-1])) -> "half.Mult.last_x.Add.max_x.init" """
    if not (isinstance(value, ast.BinOp) and isinstance(value.left, ast.Attribute)
            and isinstance(value.right, ast.BinOp) and isinstance(value.right.left, ast.Name)):
        raise LookupError("unexpected midpoint expression")
    fn, scope = _call_name(value.right.right)
    return "%s.%s.%s.%s.%s.%s" % (value.left.attr, type(value.op).__name__, value.right.left.id,
                                  type(value.right.op).__name__, fn, scope)


def _ret(func):
    last = func.body[-1]
    if not (isinstance(last, ast.Return) and isinstance(last.value, ast.Tuple)):
        raise LookupError("unexpected return")
    return ",".join(e.id for e in last.value.elts)


def _numeral_shape(func):
    """char_1..char_4: ["next_x=max_x.all.Add.one", "next_y=max_y.all.Add.one", "ret=next_x,next_y"]"""
    stmts = [s for s in func.body if not (isinstance(s, ast.Expr) and isinstance(s.value, ast.Constant))]
    if len(stmts) != 3:
        raise LookupError("unexpected body of %s" % func.name)
    out = []
    for s in stmts[:2]:
        name, val = _assign(s)
        out.append("%s=%s" % (name, _ext(val)))
    out.append("ret=" + _ret(func))
    return out


def _branch(stmts):
    if len(stmts) != 2:
        raise LookupError("unexpected branch body")
    out = []
    for s in stmts:
        name, val = _assign(s)
        try:
            out.append("%s=%s" % (name, _ext(val)))
        except LookupError:
            out.append("%s=%s" % (name, _mid(val)))
    return out


def _test(test):
    if not (isinstance(test, ast.Compare) and isinstance(test.left, ast.Name) and len(test.ops) == 1):
        raise LookupError("unexpected test")
    fn, scope = _call_name(test.comparators[0])
    return "%s.%s.%s.%s" % (test.left.id, type(test.ops[0]).__name__, fn, scope)


def _direction_shape(func):
    """char_u/l/d/r: ["bind=last_x@0", "if=last_x.Gt.max_x.init", <2 assigns>, "elif=…", <2 assigns>,
    "else=assert False", "ret=next_x,next_y"]"""
    stmts = [s for s in func.body if not (isinstance(s, ast.Expr) and isinstance(s.value, ast.Constant))]
    if len(stmts) != 3:
        raise LookupError("unexpected body of %s" % func.name)
    bind, iff = stmts[0], stmts[1]
    if not (isinstance(bind, ast.Assign) and isinstance(bind.targets[0], ast.Tuple)
            and isinstance(bind.value, ast.Subscript)):
        raise LookupError("unexpected binding")
    idx = bind.value.slice
    if not (isinstance(idx, ast.UnaryOp) and isinstance(idx.op, ast.USub) and idx.operand.value == 1):
        raise LookupError("binding is not pre_perm[-1]")
    names = [e.id for e in bind.targets[0].elts]
    used = [(n, i) for i, n in enumerate(names) if n != "_"]
    if len(names) != 2 or len(used) != 1:
        raise LookupError("unexpected tuple binding")
    out = ["bind=%s@%d" % used[0]]
    if not (isinstance(iff, ast.If) and len(iff.orelse) == 1 and isinstance(iff.orelse[0], ast.If)):
        raise LookupError("unexpected if/elif")
    out.append("if=" + _test(iff.test))
    out.extend(_branch(iff.body))
    el = iff.orelse[0]
    out.append("elif=" + _test(el.test))
    out.extend(_branch(el.body))
    if not (len(el.orelse) == 1 and isinstance(el.orelse[0], ast.Assert)
            and isinstance(el.orelse[0].test, ast.Constant) and el.orelse[0].test.value is False):
        raise LookupError("else branch is not `assert False`")
    out.append("else=assert False")
    out.append("ret=" + _ret(func))
    return out


def c14_extract(repo):
    """the raw data of the C14 item: dict name -> value (also used by harness/c14.py's self-check)"""
    data = {}
    tree = _parse(repo, "permuta/permutils/pin_words.py")
    consts = {}
    for node in tree.body:
        if isinstance(node, ast.Assign) and len(node.targets) == 1 and isinstance(node.targets[0], ast.Name) \
                and node.targets[0].id in ("DIRS", "QUADS") and isinstance(node.value, ast.Constant):
            consts[node.targets[0].id] = (node.value.value, node.lineno)
    for nm in ("DIRS", "QUADS"):
        if nm not in consts:
            raise LookupError(nm + " not found")
        data[nm] = consts[nm]
    cls = _find_class(tree, "PinWords")
    sp = _find_func(cls, "sp_to_m")
    data["spToM_letterDict"] = _local_dict(sp, "letter_dict")
    data["spToM_opposite"] = _local_dict(sp, "opposite")
    data["mToSp_letterDict"] = _local_dict(_find_func(cls, "m_to_sp"), "letter_dict")
    tree2 = _parse(repo, "permuta/permutils/pinword_util.py")
    pwu = _find_class(tree2, "PinWordUtil")
    caller, ln = _local_dict(_find_func(pwu, "__init__"), "caller")
    data["caller"] = (caller, ln)
    shapes = []
    for _letter, meth in caller:
        f = _find_func(pwu, meth)
        try:
            sh = _numeral_shape(f)
        except LookupError:
            sh = _direction_shape(f)
        shapes.append((meth, f.lineno, sh))
    data["charShapes"] = shapes
    return data


def c14_pinword_tables(repo):
    """C14: the alphabet, the letter dictionaries of sp_to_m / m_to_sp, the dispatch dictionary of
    PinWordUtil and the shape of its eight letter functions."""
    data = c14_extract(repo)
    out = []
    for nm in ("DIRS", "QUADS"):
        out.append("/-- permuta/permutils/pin_words.py:%d -/" % data[nm][1])
        out.append("def c14_%s : String := %s" % (nm, _lean_str(data[nm][0])))
    d, ln = data["spToM_letterDict"]
    out += _pairs("c14_spToM_letterDict", d, "pin_words.py:%d (sp_to_m letter_dict)" % ln)
    d, ln = data["spToM_opposite"]
    out += _pairs("c14_spToM_opposite", d, "pin_words.py:%d (sp_to_m opposite)" % ln)
    d, ln = data["mToSp_letterDict"]
    out += _pairs("c14_mToSp_letterDict", d, "pin_words.py:%d (m_to_sp letter_dict)" % ln)
    caller, ln = data["caller"]
    out += _pairs("c14_caller", caller, "pinword_util.py:%d (PinWordUtil.caller: letter -> method)" % ln)
    out.append("/-- pinword_util.py: statement shape of each letter method (assignments, tests, return) -/")
    out.append("def c14_charShapes : List (String × List String) := [")
    out.append(",\n".join("  /- line %d -/ (%s, [%s])" % (ln, _lean_str(m), ", ".join(_lean_str(x) for x in sh))
                          for m, ln, sh in data["charShapes"]))
    out.append("]")
    return out


ITEMS.append(c14_pinword_tables)
