#!/usr/bin/env python3
"""source_lock.py [--write]: structural fingerprints of the code each property is anchored in.

For every file named in the `anchors.files` of a property (properties.jsonl) every function / method is
hashed on its AST with docstrings removed (so comments, formatting and docstrings do not count).
`--write` records the fingerprints of /repo's current tree in tools/source_lock.json - this is done by hand
when a model has been (re)validated against that source.  Without `--write` the module is used by the checks:
`drift(prop)` lists the functions whose AST differs from the recorded one.  Drift is INFORMATION in the evidence
("the model was written against another version of this function; the correspondence run of this check is what
ties the model to the present code"), never a verdict."""
import ast
import hashlib
import json
import os
import sys

VERIF = os.path.dirname(os.path.dirname(os.path.abspath(__file__)))
REPO = os.environ.get("PERMUTA_REPO", "/repo")
LOCK = os.path.join(VERIF, "tools", "source_lock.json")


def _strip_doc(node):
    for n in ast.walk(node):
        if isinstance(n, (ast.FunctionDef, ast.AsyncFunctionDef, ast.ClassDef, ast.Module)):
            b = n.body
            if b and isinstance(b[0], ast.Expr) and isinstance(getattr(b[0], "value", None), ast.Constant) \
                    and isinstance(b[0].value.value, str):
                n.body = b[1:] or [ast.Pass()]
    return node


_SKIP = {"type_params", "type_comment", "kind", "ctx"}


def _ser(n, out):
    """serialisation of an AST that does not depend on the Python version running it"""
    if isinstance(n, ast.AST):
        out.append("(" + type(n).__name__)
        for f in n._fields:
            if f in _SKIP:
                continue
            v = getattr(n, f, None)
            if v is None or v == []:
                continue
            out.append(" " + f + "=")
            _ser(v, out)
        out.append(")")
    elif isinstance(n, list):
        out.append("[")
        for x in n:
            _ser(x, out)
            out.append(",")
        out.append("]")
    else:
        out.append(repr(n))


def _h(node):
    out = []
    _ser(_strip_doc(node), out)
    return hashlib.sha256("".join(out).encode()).hexdigest()[:16]


def fingerprints(path):
    """{qualified name: hash} for the functions, methods and class-level / module-level assignments of a file"""
    try:
        tree = ast.parse(open(path, encoding="utf-8").read())
    except (OSError, SyntaxError, UnicodeDecodeError):
        return None
    out = {}

    def visit(body, prefix):
        rest = []
        for n in body:
            if isinstance(n, (ast.FunctionDef, ast.AsyncFunctionDef)):
                out[prefix + n.name] = _h(n)
            elif isinstance(n, ast.ClassDef):
                visit(n.body, prefix + n.name + ".")
            elif not isinstance(n, (ast.Import, ast.ImportFrom)):
                rest.append(n)
        if rest:
            out[prefix + "<statements>"] = hashlib.sha256("".join(_h(r) for r in rest).encode()).hexdigest()[:16]
    visit(tree.body, "")
    return out


def anchored_files():
    res = {}
    for l in open(os.path.join(VERIF, "properties.jsonl")):
        j = json.loads(l)
        res[j["id"]] = j["anchors"]["files"]
    return res


def snapshot(repo=None):
    repo = repo or REPO
    snap = {}
    for files in anchored_files().values():
        for f in files:
            p = os.path.join(repo, f)
            if os.path.isdir(p):
                h = hashlib.sha256()
                names = []
                for root, _, fs in sorted(os.walk(p)):
                    for fn in sorted(fs):
                        names.append(fn)
                        h.update(fn.encode())
                        h.update(open(os.path.join(root, fn), "rb").read())
                snap[f] = {"<directory>": h.hexdigest()[:16]}
            elif f not in snap:
                snap[f] = fingerprints(p)
    return snap


def drift(prop, repo=None):
    """{'files': n, 'functions': n, 'changed': [...], 'added': [...], 'removed': [...]} for the files `prop` is anchored in"""
    try:
        lock = json.load(open(LOCK))
    except (OSError, ValueError):
        return {"error": "tools/source_lock.json missing"}
    now = snapshot(repo)
    files = anchored_files().get(prop, [])
    res = {"locked_commit": lock.get("commit"), "files": len(files), "functions": 0, "changed": [], "added": [], "removed": []}
    for f in files:
        a, b = lock["files"].get(f) or {}, now.get(f) or {}
        res["functions"] += len(b)
        for k in sorted(set(a) | set(b)):
            if k not in b:
                res["removed"].append(f + "::" + k)
            elif k not in a:
                res["added"].append(f + "::" + k)
            elif a[k] != b[k]:
                res["changed"].append(f + "::" + k)
    return res


if __name__ == "__main__":
    if "--write" in sys.argv:
        import subprocess
        commit = subprocess.run(["git", "-C", REPO, "rev-parse", "HEAD"], capture_output=True, text=True).stdout.strip()
        dirty = subprocess.run(["git", "-C", REPO, "status", "--porcelain"], capture_output=True, text=True).stdout.strip()
        if dirty:
            sys.exit("refusing to lock a dirty tree:\n" + dirty)
        json.dump({"commit": commit, "files": snapshot()}, open(LOCK, "w"), indent=1, sort_keys=True)
        print("locked", commit)
    else:
        for p in sorted(anchored_files()):
            d = drift(p)
            print(p, {k: v for k, v in d.items() if v})
