"""C12 extraction items: the literal pattern tuples of permuta/bisc/perm_properties.py and the
binding of every pattern-based family predicate to its constant (pure `ast`, nothing is executed).

Emitted (namespace Generated):
  ppPatts    : List (String × List (List Nat × Option (List (Nat × Nat))))
               constant name ↦ its patterns; `none` = classical `Perm`, `some cells` = `MeshPatt` shading
  ppBindings : List (String × String)      function name ↦ constant it passes to `perm.avoids`
plus one `def pp_<NAME>` per constant.
"""
import ast
import os

REL = os.path.join("permuta", "bisc", "perm_properties.py")


def _perm(node):
    """Perm((a, b, ...)) -> [a, b, ...]"""
    if not (isinstance(node, ast.Call) and isinstance(node.func, ast.Name) and node.func.id == "Perm"
            and len(node.args) == 1 and not node.keywords):
        raise ValueError("not a Perm(...) literal at line %d" % node.lineno)
    return [int(x) for x in ast.literal_eval(node.args[0])]


def _patt(node):
    if isinstance(node, ast.Call) and isinstance(node.func, ast.Name) and node.func.id == "MeshPatt":
        if len(node.args) != 2 or node.keywords:
            raise ValueError("unexpected MeshPatt call at line %d" % node.lineno)
        shading = [tuple(int(z) for z in c) for c in ast.literal_eval(node.args[1])]
        return (_perm(node.args[0]), sorted(set(shading)))
    return (_perm(node), None)


def extract(repo):
    """returns (consts: name -> (lineno, [patterns]), bindings: function -> (lineno, const name))"""
    src = open(os.path.join(repo, REL)).read()
    tree = ast.parse(src)
    consts, bindings = {}, {}
    for node in tree.body:
        if isinstance(node, ast.Assign) and len(node.targets) == 1 and isinstance(node.targets[0], ast.Name) \
                and node.targets[0].id.endswith("_PATT"):
            name = node.targets[0].id
            if isinstance(node.value, ast.Tuple):
                consts[name] = (node.lineno, [_patt(e) for e in node.value.elts])
            else:
                consts[name] = (node.lineno, [_patt(node.value)])
        if isinstance(node, ast.FunctionDef):
            body = [s for s in node.body if not (isinstance(s, ast.Expr) and isinstance(s.value, ast.Constant))]
            if len(body) == 1 and isinstance(body[0], ast.Return):
                v = body[0].value
                # return perm.avoids(*NAME)   or   return perm.avoids(NAME)
                if isinstance(v, ast.Call) and isinstance(v.func, ast.Attribute) and v.func.attr == "avoids" \
                        and isinstance(v.func.value, ast.Name) and v.func.value.id == node.args.args[0].arg \
                        and len(v.args) == 1 and not v.keywords:
                    arg = v.args[0]
                    if isinstance(arg, ast.Starred):
                        arg = arg.value
                    if isinstance(arg, ast.Name):
                        bindings[node.name] = (node.lineno, arg.id)
    return consts, bindings


EXPECTED_FUNCS = ["smooth", "forest_like", "baxter", "simsun", "av_231_and_mesh", "hard_mesh"]


def _lean_patt(p):
    perm, sh = p
    ps = "[" + ", ".join(str(x) for x in perm) + "]"
    if sh is None:
        return "(%s, none)" % ps
    return "(%s, some [%s])" % (ps, ", ".join("(%d, %d)" % c for c in sh))


def c12_perm_properties(repo):
    consts, bindings = extract(repo)
    for f in EXPECTED_FUNCS:
        if f not in bindings:
            raise KeyError("function %s is no longer `return perm.avoids(<CONST>)`" % f)
        if bindings[f][1] not in consts:
            raise KeyError("constant %s used by %s not found" % (bindings[f][1], f))
    out = []
    ty = "List (List Nat × Option (List (Nat × Nat)))"
    for name in sorted(consts, key=lambda k: consts[k][0]):
        line, patts = consts[name]
        out.append("/-- %s:%d `%s` -/" % (REL, line, name))
        out.append("def pp%s : %s := [%s]" % (name, ty, ", ".join(_lean_patt(p) for p in patts)))
    out.append("/-- constant name ↦ patterns (%s) -/" % REL)
    out.append("def ppPatts : List (String × %s) := [%s]" % (
        ty, ", ".join('("%s", pp%s)' % (n, n) for n in sorted(consts, key=lambda k: consts[k][0]))))
    out.append("/-- family predicate ↦ the constant it hands to `perm.avoids` -/")
    out.append("def ppBindings : List (String × String) := [%s]" % ", ".join(
        '("%s", "%s")' % (f, bindings[f][1]) for f in sorted(bindings, key=lambda k: bindings[k][0])))
    return out


ITEMS = [c12_perm_properties]
