#!/bin/bash
# usage: tools/validate_neutral.sh <dir containing patch.diff equiv.py meta.json> <Cxx> [tier]
# A behaviour-preserving change: confirms (in scratch copies, never in /repo) that the patch applies, the full suite
# passes with it and its equivalence script passes; then runs ./check Cxx against the patched copy: rc must be 0
# (anything else is a FALSE ALARM of the check).
VROOT=$(dirname $(dirname $(realpath $0)))
SD=$(realpath $1); P=$2; TIER=${3:-quick}
ID=$(echo "$SD" | tr '/' '_')
W=/tmp/nval$ID
rm -rf $W; mkdir -p $W
git -C /repo worktree add -q --detach $W/repo HEAD || exit 2
trap 'git -C /repo worktree remove --force $W/repo 2>/dev/null; rm -rf $W' EXIT
cd $W/repo
if ! git apply $SD/patch.diff; then echo "NRESULT $SD apply=FAIL"; exit 0; fi
mkdir -p $W/repo/_n; cp $SD/equiv.py $W/repo/_n/equiv.py
( cd $W/repo && timeout 600 /venv/bin/python _n/equiv.py >/dev/null 2>&1 ); EQ=$?
rm -rf $W/repo/_n
if [ "$SKIP_TESTS" != "1" ]; then
  ( cd $W/repo && timeout 1200 /venv/bin/python -m pytest -q -p no:cacheprovider --timeout=900 2>&1 | tail -1 ) > $W/tests.txt
else echo "skipped" > $W/tests.txt; fi
cp -r $VROOT $W/verif
( cd $W/verif && PERMUTA_REPO=$W/repo timeout 1800 ./check $P --tier $TIER > $W/check.txt 2>&1 ); RC=$?
echo "NRESULT $SD prop=$P equiv_rc=$EQ tests='$(cat $W/tests.txt)' check_rc=$RC"
grep -E "VIOLATION|failing input|correspondence broken|broken obligation|NOTE:" $W/check.txt | head -5 | cut -c1-300
tail -1 $W/check.txt
