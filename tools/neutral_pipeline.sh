#!/bin/bash
# usage: tools/neutral_pipeline.sh <Cxx>  -- validate /tmp/neutral_Cxx/neutral_{1..4} and store them right away
P=$1; V=$(dirname $(dirname $(realpath $0)))
for k in 1 2 3 4; do $V/tools/validate_neutral.sh /tmp/neutral_$P/neutral_$k $P; done > /tmp/npipe_$P.log 2>&1
python3 $V/tools/store_neutral.py /tmp/npipe_$P.log
