#!/bin/bash
# usage: tools/validate_seed.sh <seed dir containing patch.diff demo.py meta.json> <Cxx> [tier]
# Confirms (in scratch copies, never in /repo): patch applies, full suite passes with it, demo fails with it
# and passes without it; then runs ./check Cxx against the patched copy and reports whether it was caught.
VROOT=$(dirname $(dirname $(realpath $0)))
SD=$(realpath $1); P=$2; TIER=${3:-quick}
ID=$(echo "$SD" | tr '/' '_')
W=/tmp/val$ID
rm -rf $W; mkdir -p $W
git -C /repo worktree add -q --detach $W/repo HEAD || exit 2
trap 'git -C /repo worktree remove --force $W/repo 2>/dev/null; rm -rf $W' EXIT
cd $W/repo
if ! git apply $SD/patch.diff; then echo "RESULT $SD apply=FAIL"; exit 0; fi
cp $SD/demo.py $W/repo/_demo.py
( cd $W/repo && timeout 120 /venv/bin/python _demo.py >/dev/null 2>&1 ); DW=$?
cp $SD/demo.py /tmp/_demo_$$.py; ( cd /repo && timeout 120 /venv/bin/python /tmp/_demo_$$.py >/dev/null 2>&1 ); DO=$?; rm -f /tmp/_demo_$$.py
rm -f $W/repo/_demo.py
if [ "$SKIP_TESTS" != "1" ]; then
  ( cd $W/repo && timeout 1200 /venv/bin/python -m pytest -q -p no:cacheprovider --timeout=900 2>&1 | tail -1 ) > $W/tests.txt
else echo "skipped" > $W/tests.txt; fi
cp -r $VROOT $W/verif
( cd $W/verif && PERMUTA_REPO=$W/repo timeout 1800 ./check $P --tier $TIER > $W/check.txt 2>&1 ); RC=$?
echo "RESULT $SD prop=$P demo_with_patch_rc=$DW demo_without_rc=$DO tests='$(cat $W/tests.txt)' check_rc=$RC"
grep -E "VIOLATION|failing input|correspondence broken|broken obligation" $W/check.txt | head -4
tail -1 $W/check.txt
