"""Extraction items for translate.py: each function takes the repo path and returns Lean lines."""
import ast
import os

ITEMS = []


# ----------------------------------------------------------------------------- C11
def _lean_str(s):
    return '"' + s.replace("\\", "\\\\").replace('"', '\\"') + '"'


def _class_def(tree, name):
    for node in tree.body:
        if isinstance(node, ast.ClassDef) and node.name == name:
            return node
    raise LookupError("class %s not found" % name)


def _perm_methods_and_aliases(repo):
    """(set of method names defined with `def` in class Perm, alias map from `A = B` class-level assignments)"""
    src = open(os.path.join(repo, "permuta", "patterns", "perm.py")).read()
    cls = _class_def(ast.parse(src), "Perm")
    defs, alias = set(), {}
    for node in cls.body:
        if isinstance(node, (ast.FunctionDef, ast.AsyncFunctionDef)):
            defs.add(node.name)
        elif isinstance(node, ast.Assign) and isinstance(node.value, ast.Name):
            for t in node.targets:
                if isinstance(t, ast.Name):
                    alias[t.id] = node.value.id
    return defs, alias


def _resolve_perm_method(name, defs, alias):
    seen = set()
    while name not in defs:
        if name in seen or name not in alias:
            raise LookupError("Perm.%s is neither a method nor an alias of one" % name)
        seen.add(name)
        name = alias[name]
    return name


def c11_stat_table(repo):
    """`PermutationStatistic._STATISTICS` as (name, Perm method that is finally called).
    `Perm.X` entries are resolved through the class-level aliases of Perm (`count_pinnacles = count_peaks`),
    module-level wrappers `def _f(perm): return perm.X()` are resolved to `X`."""
    path = os.path.join(repo, "permuta", "permutils", "statistics.py")
    tree = ast.parse(open(path).read())
    defs, alias = _perm_methods_and_aliases(repo)
    wrappers = {}
    for node in tree.body:
        if isinstance(node, ast.FunctionDef) and len(node.body) == 1 and isinstance(node.body[0], ast.Return):
            v = node.body[0].value
            args = [a.arg for a in node.args.args]
            if (isinstance(v, ast.Call) and not v.args and not v.keywords and isinstance(v.func, ast.Attribute)
                    and isinstance(v.func.value, ast.Name) and len(args) == 1 and v.func.value.id == args[0]):
                wrappers[node.name] = v.func.attr
    cls = _class_def(tree, "PermutationStatistic")
    table = None
    for node in cls.body:
        if isinstance(node, ast.Assign) and any(isinstance(t, ast.Name) and t.id == "_STATISTICS" for t in node.targets):
            table = node.value
    if not isinstance(table, (ast.Tuple, ast.List)):
        raise LookupError("_STATISTICS is not a literal tuple")
    out = ["/-- statistics.py:%d `PermutationStatistic._STATISTICS`: (name, Perm method finally called) -/" % table.lineno,
           "def statTable : List (String × String) := ["]
    rows = []
    for e in table.elts:
        if not (isinstance(e, ast.Tuple) and len(e.elts) == 2 and isinstance(e.elts[0], ast.Constant)
                and isinstance(e.elts[0].value, str)):
            raise LookupError("unexpected entry at line %d" % e.lineno)
        name, f = e.elts[0].value, e.elts[1]
        if isinstance(f, ast.Attribute) and isinstance(f.value, ast.Name) and f.value.id == "Perm":
            raw, meth = "Perm." + f.attr, f.attr
        elif isinstance(f, ast.Name) and f.id in wrappers:
            raw, meth = f.id, wrappers[f.id]
        else:
            raise LookupError("cannot resolve the function of %r (line %d)" % (name, e.lineno))
        meth = _resolve_perm_method(meth, defs, alias)
        rows.append("  (%s, %s)  -- line %d: %s" % (_lean_str(name), _lean_str(meth), e.lineno, raw))
    # the comma has to precede the comment
    fixed = []
    for i, r in enumerate(rows):
        code, _, com = r.partition("  -- ")
        fixed.append(code + ("," if i + 1 < len(rows) else "") + "  -- " + com)
    out.extend(fixed)
    out.append("]")
    return out


def c11_transformed_materialised(repo):
    """structural fact about `check_all_transformed`: is `all_stats` (used twice in `product(all_stats, all_stats)`)
    a materialised list/tuple (True) or the one-shot generator returned by `cls._get_all()` (False)?"""
    path = os.path.join(repo, "permuta", "permutils", "statistics.py")
    tree = ast.parse(open(path).read())
    cls = _class_def(tree, "PermutationStatistic")
    fn = get_all = None
    for node in cls.body:
        if isinstance(node, ast.FunctionDef) and node.name == "check_all_transformed":
            fn = node
        if isinstance(node, ast.FunctionDef) and node.name == "_get_all":
            get_all = node
    if fn is None or get_all is None:
        raise LookupError("check_all_transformed/_get_all not found")
    get_all_is_generator = any(isinstance(n, (ast.Yield, ast.YieldFrom)) for n in ast.walk(get_all))
    assign = None
    for node in ast.walk(fn):
        if isinstance(node, ast.Assign) and any(isinstance(t, ast.Name) and t.id == "all_stats" for t in node.targets):
            assign = node
    uses_twice = False
    for node in ast.walk(fn):
        if (isinstance(node, ast.Call) and isinstance(node.func, ast.Name) and node.func.id == "product"
                and len(node.args) == 2 and all(isinstance(a, ast.Name) and a.id == "all_stats" for a in node.args)):
            uses_twice = True
    if assign is None or not uses_twice:
        raise LookupError("check_all_transformed no longer has the shape `all_stats = …; product(all_stats, all_stats)`")
    v = assign.value
    if isinstance(v, ast.Call) and isinstance(v.func, ast.Name) and v.func.id in ("list", "tuple"):
        flag = True
    elif isinstance(v, (ast.List, ast.Tuple, ast.ListComp)):
        flag = True
    elif (isinstance(v, ast.Call) and isinstance(v.func, ast.Attribute) and v.func.attr == "_get_all"
          and get_all_is_generator):
        flag = False
    else:
        raise LookupError("cannot classify the value assigned to all_stats (line %d)" % assign.lineno)
    return ["/-- statistics.py:%d `all_stats = …` in `check_all_transformed`: materialised (re-iterable) or one-shot generator -/" % assign.lineno,
            "def transformedMaterialised : Bool := %s" % ("true" if flag else "false")]


ITEMS.append(c11_stat_table)
ITEMS.append(c11_transformed_materialised)
