#!/bin/bash
# usage: tools/regress_seeds.sh [parallel jobs] [glob]   -- re-run the quick check of every stored seeded change
# (seeded/<Cxx>-<k>) in scratch worktrees; prints the seeds that are NOT caught (check rc != 1) and the stored
# behaviour-preserving changes (neutral/<Cxx>-<k>) on which a check is NOT quiet (rc != 0).
J=${1:-4}; G=${2:-*}
V=$(dirname $(dirname $(realpath $0)))
OUT=/tmp/regress_$$; mkdir -p $OUT
# (the property and tier are taken from the stored meta: a few seeds are caught by the check of a neighbouring property
#  or by the thorough tier only - their meta says so)
ls -d $V/seeded/$G 2>/dev/null | xargs -P $J -I{} bash -c 'd={}; cmd=$(python3 -c "import json,sys;print(json.load(open(sys.argv[1]))[\"check\"][\"command\"])" $d/meta.json); p=$(echo $cmd | cut -d" " -f2); t=$(echo $cmd | cut -d" " -f4); SKIP_TESTS=1 '$V'/tools/validate_seed.sh $d $p $t > '$OUT'/s_$(basename $d).log 2>&1'
ls -d $V/neutral/$G 2>/dev/null | xargs -P $J -I{} bash -c 'd={}; p=$(basename $d | cut -d- -f1); SKIP_TESTS=1 '$V'/tools/validate_neutral.sh $d $p > '$OUT'/n_$(basename $d).log 2>&1'
echo "== seeds not caught:"; grep -h "^RESULT" $OUT/s_*.log 2>/dev/null | grep -v "check_rc=1" | cut -c1-160
echo "== neutral changes with an alarm:"; grep -h "^NRESULT" $OUT/n_*.log 2>/dev/null | grep -v "check_rc=0" | cut -c1-160
echo "== totals: seeds $(grep -h '^RESULT' $OUT/s_*.log 2>/dev/null | wc -l) (caught $(grep -h '^RESULT' $OUT/s_*.log 2>/dev/null | grep -c 'check_rc=1')), neutral $(grep -h '^NRESULT' $OUT/n_*.log 2>/dev/null | wc -l) (quiet $(grep -h '^NRESULT' $OUT/n_*.log 2>/dev/null | grep -c 'check_rc=0'))"
echo "logs in $OUT"
